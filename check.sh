#!/bin/bash
# usage: ./check.sh <ID> quick|thorough [extra simcheck args]   |   ./check.sh replay <file>
# Rebuilds the hooked quandary + harness from /repo's current working tree
# (offline) and runs the deterministic-simulation check of one property.
# exit 0 = held, 1 = VIOLATION line printed, 2 = harness error.
set -u
here="$(cd "$(dirname "$0")" && pwd)"
export CARGO_NET_OFFLINE=true
export VERIF_DIR="$here"
"$here/sim/build.sh" >&2 || { echo "HARNESS-ERROR build failed"; exit 2; }
bin="$here/sim/target/release/simcheck"
if [ "${1:-}" = "replay" ]; then
  exec "$bin" replay "$2"
fi
id="$1"; tier="${2:-${VERIF_TIER:-quick}}"; shift; shift || true
# Thorough tier of the arithmetic-heavy rate-limiter checks: additionally run a batch on a build
# with the *shipped* arithmetic (overflow checks and debug assertions off), where a wrapped
# refill shows up as a refinement mismatch instead of a panic. Evidence comes from the main run.
if [ "$tier" = "thorough" ] && { [ "$id" = "C26" ] || [ "$id" = "C28" ]; } && [ -z "${VERIF_SKIP_SHIPPED:-}" ]; then
  VERIF_PROFILE=shipped "$here/sim/build.sh" >&2 || { echo "HARNESS-ERROR build (shipped profile) failed"; exit 2; }
  echo "[$id] shipped-arithmetic batch (overflow-checks=off)"
  "$here/sim/target/shipped/simcheck" check "$id" --tier quick --seed "${VERIF_SEED:-1}" --no-evidence --no-selfcheck "$@" || exit $?
fi
extra=()
[ -n "${VERIF_NO_EVIDENCE:-}" ] && extra+=(--no-evidence)
exec "$bin" check "$id" --tier "$tier" --seed "${VERIF_SEED:-1}" "${extra[@]}" "$@"
