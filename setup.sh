#!/bin/bash
# Run once after a fresh restore (offline): builds the simulator, the hooked
# quandary library (shadow manifest over /repo's working tree) and the harness.
set -eu
here="$(cd "$(dirname "$0")" && pwd)"
export CARGO_NET_OFFLINE=true
mkdir -p "$here/evidence" "$here/replays"
"$here/sim/build.sh"
"$here/sim/target/release/simcheck" selftest
