#!/bin/bash
# Determinism proof: for every check, (a) per-run (schedule hash, event-log hash, verdict) of the
# first N runs computed in two separate processes must be identical, (b) the order-independent
# digest of a whole batch must be identical with 16 and with 3 workers, in separate processes.
# usage: tools/determinism.sh [N per property, default 2000] [IDs...]
set -u
here="$(cd "$(dirname "$0")/.." && pwd)"
bin="$here/sim/target/release/simcheck"
n="${1:-2000}"; shift || true
ids=("$@"); [ ${#ids[@]} -eq 0 ] && ids=(C01 C10 C24 C25 C26 C27 C28 C29 C30 C31 C32)
export VERIF_DIR="$(mktemp -d)"; mkdir -p "$VERIF_DIR/evidence"; cp "$here/known_findings.json" "$VERIF_DIR/"
rc=0
for id in "${ids[@]}"; do
  k=$n; [ "$id" = C01 ] && k=$(( n / 50 + 8 )); [ "$id" = C30 ] && k=$(( n / 4 ))
  # (a) two processes, run by run; split over 8 parallel processes each
  for pass in 1 2; do
    for j in 0 1 2 3 4 5 6 7; do
      "$bin" digest "$id" --from $(( j * k / 8 )) --n $(( k / 8 )) > "$VERIF_DIR/d.$id.$pass.$j" 2>/dev/null &
    done; wait
    cat "$VERIF_DIR"/d.$id.$pass.? > "$VERIF_DIR/digest.$id.$pass"
  done
  if cmp -s "$VERIF_DIR/digest.$id.1" "$VERIF_DIR/digest.$id.2"; then a=same; else a=DIFFERENT; rc=2; fi
  # (b) worker counts
  "$bin" check "$id" --runs "$k" --workers 16 --no-selfcheck >/dev/null 2>&1; d16=$(python3 -c "import json;print(json.load(open('$VERIF_DIR/evidence/$id.json'))['coverage']['run_digest'])")
  "$bin" check "$id" --runs "$k" --workers 3 --no-selfcheck >/dev/null 2>&1;  d3=$(python3 -c "import json;print(json.load(open('$VERIF_DIR/evidence/$id.json'))['coverage']['run_digest'])")
  [ "$d16" = "$d3" ] && b=same || { b=DIFFERENT; rc=2; }
  echo "$id runs=$k two-process per-run digests: $a ($(wc -l < "$VERIF_DIR/digest.$id.1") lines)  16-vs-3-worker batch digest: $b ($d16)"
done
rm -rf "$VERIF_DIR"
exit $rc
