#!/bin/bash
# usage: tools/try_patch.sh <patch-file> <ID> [extra simcheck args]
# Applies a patch to /repo, runs the quick check of <ID> against it, reverts.
# Prints the check's verdict; exit status = the check's exit status.
set -u
patch="$(realpath "$1")"; id="$2"; shift 2
cd /repo || exit 2
if ! git diff --quiet; then echo "try_patch: /repo has uncommitted changes" >&2; exit 2; fi
git apply "$patch" || { echo "try_patch: patch does not apply" >&2; exit 2; }
VERIF_NO_EVIDENCE=1 VERIF_REPLAY_DIR=/tmp/verif-replays-mutant /verif/check.sh "$id" quick "$@"
rc=$?
git -C /repo checkout -- . 
git -C /repo clean -fdq src 2>/dev/null
exit $rc
