#!/bin/bash
# usage: tools/regress_mutants.sh [repo]      (repo defaults to $VERIF_REPO, then /repo)
# Applies every stored property-breaking change (seeded/<key>/patch.diff, tools/mutants/*.patch) to
# the repository, runs the quick check of the property it breaks and reverts. Prints one line per
# change: DETECTED (exit 1), MISSED (exit 0) or ERROR (anything else / patch does not apply).
# Use a scratch copy of the repository (e.g. `vp run --with-repo`), never /repo while working in it.
set -u
here="$(cd "$(dirname "$0")/.." && pwd)"
repo="${1:-${VERIF_REPO:-/repo}}"
export VERIF_REPO="$repo" VERIF_NO_EVIDENCE=1 VERIF_REPLAY_DIR="$(mktemp -d)"
cd "$here"
prop_of() {
  case "$1" in
    *seeded/*) python3 -c "import json,sys;m=json.load(open(sys.argv[1]));print(m.get('verif_check',{}).get('id') or m['property'])" "$(dirname "$1")/meta.json" ;;
    *m_c[0-9][0-9]_*) basename "$1" | sed -E 's/^m_c([0-9]{2})_.*/C\1/' ;;
    *prefix_F1_*|*prefix_F7F8_*) echo C29 ;; *prefix_F2_*) echo C26 ;; *prefix_F3_*) echo C31 ;;
    *prefix_F4F5_*|*prefix_F6_*) echo C01 ;; *prefix_F9_*) echo C10 ;; *prefix_F10_*) echo C25 ;;
    *) echo "" ;;
  esac
}
n=0; det=0; miss=0; err=0
for p in seeded/*/patch.diff tools/mutants/*.patch; do
  id=$(prop_of "$p"); [ -z "$id" ] && { echo "SKIP      $p (no property)"; continue; }
  case "$p" in *seeded/C30f/*) echo "BOUNDARY  $p (below the stub boundary by design)"; continue;; esac
  n=$((n+1))
  if ! git -C "$repo" apply --check "$here/$p" 2>/dev/null; then echo "ERROR     $id $p (does not apply)"; err=$((err+1)); continue; fi
  git -C "$repo" apply "$here/$p"
  ./check.sh "$id" quick --no-selfcheck > "$VERIF_REPLAY_DIR/out.txt" 2>&1; rc=$?
  git -C "$repo" checkout -q -- . ; git -C "$repo" clean -fdq src 2>/dev/null
  cls=$(grep -o "violation class=[^ ]*" "$VERIF_REPLAY_DIR/out.txt" | head -2 | tr '\n' ' ')
  case $rc in
    1) echo "DETECTED  $id $p  $cls"; det=$((det+1));;
    0) echo "MISSED    $id $p"; miss=$((miss+1));;
    *) echo "ERROR     $id $p (exit $rc) $(grep -m1 HARNESS "$VERIF_REPLAY_DIR/out.txt")"; err=$((err+1));;
  esac
done
echo "SUMMARY changes=$n detected=$det missed=$miss errors=$err"
rm -rf "$VERIF_REPLAY_DIR"
[ $miss -eq 0 ] && [ $err -eq 0 ]
