#!/usr/bin/env python3
"""usage: tools/mk_agent_prompt.py <key> <property id> <hint text>
Creates the scratch worktree /tmp/wt-<key> (from /repo HEAD) and the prompt file
/tmp/agent_prompt_<key>.txt for a sub-agent that writes one property-breaking change.
The prompt contains only the property's text (from properties.jsonl) - nothing from /verif."""
import json, subprocess, sys, os
key, pid, hint = sys.argv[1], sys.argv[2], sys.argv[3]
here = os.path.dirname(os.path.abspath(__file__))
prop = None
for l in open(os.path.join(here, '..', 'properties.jsonl')):
    p = json.loads(l)
    if p['id'] == pid: prop = p
a = prop['anchors']
text = f"{prop['title']}\n\n{prop['statement']}\n\nQuantified over: {prop['quantifier']['text']}\n\n" \
       f"Why the existing tests cannot settle it: {prop['why_tests_cant']}\n\nWhere it lives: {', '.join(a['files'])}\n" + \
       ''.join(f"  - {m['name']}: {m['where']}\n" for m in a.get('mechanism', []))
wt = f"/tmp/wt-{key}"
if not os.path.isdir(wt):
    subprocess.check_call(['git', '-C', '/repo', 'worktree', 'add', '--detach', wt, 'HEAD'], stdout=subprocess.DEVNULL)
t = open(os.path.join(here, 'agent_prompt_template.txt')).read()
t = t.replace('@WT@', wt).replace('@PROPERTY@', text).replace('@HINT@', hint).replace('@KEY@', key)
open(f"/tmp/agent_prompt_{key}.txt", 'w').write(t)
os.makedirs('/tmp/seeded-out', exist_ok=True)
print(f"/tmp/agent_prompt_{key}.txt")
