#!/usr/bin/env python3
"""Regenerates /verif/MANIFEST.json from the table below and validates it."""
import json, os, subprocess
here = os.path.dirname(os.path.dirname(os.path.abspath(__file__)))
props = [json.loads(l) for l in open(os.path.join(here, "properties.jsonl"))]
ids = [p["id"] for p in props]

PURE = "pure function of its arguments (no thread, clock, timer, socket, file, random source or crash point the property could depend on): not a simulation target"
NA = {
 "C02": "well-formed responses: " + PURE,
 "C03": "header/question echo: " + PURE,
 "C04": "size limits and truncation: " + PURE,
 "C05": "resolution algorithm: " + PURE,
 "C06": "zone lookups: " + PURE,
 "C07": "zone selection / NOTIMP-REFUSED-SERVFAIL: " + PURE + " (the SERVFAIL-for-unloaded clause is exercised end-to-end inside C31 but not claimed)",
 "C08": "FORMERR for malformed requests: " + PURE,
 "C09": "EDNS handling: " + PURE,
 "C11": "TSIG MACs at library level: `now`, key and message are arguments; " + PURE + " (the server's use of the wall clock is C10)",
 "C12": "message writer: pure function of the operation sequence on a caller-owned buffer",
 "C13": "name compression: pure function of the operation sequence on a caller-owned buffer",
 "C14": "name decoding: " + PURE,
 "C15": "message reader: " + PURE,
 "C16": "name text form and ordering: " + PURE,
 "C17": "code mnemonics: finite pure enumeration, not a simulation target",
 "C18": "RDATA read/validate/write: " + PURE,
 "C19": "RDATA equality: " + PURE,
 "C20": "zone store add/iterate: sequential history on a value owned through &mut; no sharing, no durability",
 "C21": "zone validation: " + PURE,
 "C22": "catalog insert/remove: sequential history on a value owned through &mut; the daemon never calls remove, so no simulated actor reaches it",
 "C23": "zone-file semantics: pure function of the file text; the stream-dependent facet (independence from read chunking, behaviour under read errors) is decided under C24",
}
NOT_BUILT = "deterministic simulation applies (see DESIGN.md section 4) but the check is not built yet in this revision; not claimed on partial machinery"

CHECKS = {}
def check(pid, level, text, note, technique, engine, design_ref):
    CHECKS[pid] = {
        "property_id": pid,
        "quick_cmd": f"./check.sh {pid} quick",
        "thorough_cmd": f"./check.sh {pid} thorough",
        "evidence_file": f"/verif/evidence/{pid}.json",
        "replay_cmd_template": "./check.sh replay {path}",
        "engine": engine,
        "level_claimed": {"category": level, "text": text, "design_ref": design_ref},
        "level_note": note,
        "technique": technique,
    }

exec(open(os.path.join(here, "tools", "manifest_checks.py")).read())

manifest = {
 "version": 1,
 "setup_cmd": "./setup.sh",
 "hooks": {
   "guard": "quandary_verif",
   "enable": "RUSTFLAGS='--cfg quandary_verif --cfg tokio_unstable' (sim/harness/.cargo/config.toml), through the generated shadow manifest sim/shadow/Cargo.toml whose [lib] path is /repo/src/lib.rs and which adds the quandary_simrt dependency; /repo's Cargo.toml and Cargo.lock are untouched",
   "baseline_off_cmd": "cd /repo && cargo test --workspace --no-fail-fast --offline",
   "source_commits": subprocess.run(["git","-C","/repo","log","--format=%H","--grep=^verif hooks:"],capture_output=True,text=True).stdout.split(),
   "add_only": True,
 },
 "engines": ENGINES,
 "checks": [CHECKS[i] for i in ids if i in CHECKS],
 "not_applicable": [{"property_id": i, "reason": NA.get(i, NOT_BUILT)} for i in ids if i not in CHECKS],
 "notes": "Technique family: deterministic simulation with fault injection (DESIGN.md). Every check = seeded search over schedules and fault sequences; one VERIF_SEED is one repeatable batch; failures are minimised and written as replay files under /verif/replays; known findings in /verif/known_findings.json (at present: eleven fixed entries, no open one). Each check runs in a child process under a guard, so that code under test which overflows the stack, aborts or spins without a scheduling point yields a VIOLATION with a (process-level) replay file instead of a dead check. tools/regress_mutants.sh re-runs every stored property-breaking change (seeded/, tools/mutants/) against its check; tools/benign/ holds property-preserving changes that must stay silent.",
}
path = os.path.join(here, "MANIFEST.json")
json.dump(manifest, open(path, "w"), indent=1)
open(path, "a").write("\n")
try:
    import jsonschema
    jsonschema.validate(manifest, json.load(open("/root/.vp/MANIFEST.schema.json")))
    print("MANIFEST.json valid;", len(manifest["checks"]), "checks,", len(manifest["not_applicable"]), "not applicable")
except ImportError:
    print("jsonschema not available in this python; not validated")
