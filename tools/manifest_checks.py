# Table of claimed checks (exec'd by gen_manifest.py).
ENGINES = [
 {"name": "E1 simrt-threads", "path": "sim/simrt + sim/harness", "serves_properties": ["C29"],
  "kind_free_text": "threads of the code under test run as coroutines on shuttle-engine under a scheduler owned by the harness (seeded random / PCT / replay), with a simulated clock task, timer heap and timed Condvar written for this project; DES or eager clock policy per run"},
]
check("C29", "exploration",
  "Seeded search over interleavings and timer firings of the real src/thread.rs (pools with 0-2 permanent workers, lingering auxiliary workers, 1-4 submitters, concurrent pool/group shutdown, spurious wake-ups, thread-spawn failures). Oracles: accepted => ran exactly once and finished before await_shutdown returned; rejected => never ran; submissions invoked after a shutdown call returned are rejected; no body activity after await_shutdown returned; every thread exits; no deadlock (engine-detected); bounded liveness under the fair configuration. Exploration (sampling), not proof: a clean batch is evidence.",
  "Trusted: shuttle-engine coroutine switching, simrt's Mutex/Condvar/clock model (unit-checked by `simcheck selftest` against std's documented semantics). Not simulated: panicking task bodies (Drop-handler panicking() branches), OS-level thread exit after the closure returns.",
  "deterministic simulation: seeded schedule search (random + PCT) over coroutine threads with simulated timed condvars",
  "E1 simrt-threads", "DESIGN.md section 4 (C29)")
