# Table of claimed checks (exec'd by gen_manifest.py).
ENGINES = [
 {"name": "E1 simrt-threads", "path": "sim/simrt + sim/harness", "serves_properties": ["C29"],
  "kind_free_text": "threads of the code under test run as coroutines on shuttle-engine under a scheduler owned by the harness (seeded random / PCT / replay), with a simulated clock task, timer heap and timed Condvar written for this project; DES or eager clock policy per run"},
]
check("C29", "exploration",
  "Seeded search over interleavings and timer firings of the real src/thread.rs (pools with 0-2 permanent workers, lingering auxiliary workers, 1-4 submitters, concurrent pool/group shutdown, spurious wake-ups, thread-spawn failures). Oracles: accepted => ran exactly once and finished before await_shutdown returned; rejected => never ran; submissions invoked after a shutdown call returned are rejected; no body activity after await_shutdown returned; every thread exits; no deadlock (engine-detected); bounded liveness under the fair configuration. Exploration (sampling), not proof: a clean batch is evidence.",
  "Trusted: shuttle-engine coroutine switching, simrt's Mutex/Condvar/clock model (unit-checked by `simcheck selftest` against std's documented semantics). Not simulated: panicking task bodies (Drop-handler panicking() branches), OS-level thread exit after the closure returns.",
  "deterministic simulation: seeded schedule search (random + PCT) over coroutine threads with simulated timed condvars",
  "E1 simrt-threads", "DESIGN.md section 4 (C29)")
ENGINES[0]["serves_properties"] = ["C28", "C29", "C32"]
ENGINES.append({"name": "E3 simrt-sequential", "path": "sim/simrt + sim/harness", "serves_properties": ["C26", "C27"],
  "kind_free_text": "one simulated task plus the clock task: the harness advances the simulated monotonic/wall clock between operations and drives faulty streams / the simulated file system; same record/replay/minimise machinery as E1"})
check("C26", "exploration",
  "Seeded request-time histories (gaps 0 .. 10^9 s incl. sub-second carries, window boundaries and the 2^32/rate region) of one response stream against the real limiter reading a simulated monotonic clock; every step compared with a u128 reference token bucket; slip 0/1 semantics and slipped-response shape checked. Sampling of histories, not proof.",
  "Trusted: the reference bucket (12 lines), the independent wire decoder. One stream per limiter (documented collision eviction excluded). Gaps are capped at 10^9 s, the bound the property states.",
  "deterministic simulation: simulated clock advanced by seeded gaps, step-by-step refinement check against a reference token bucket",
  "E3 simrt-sequential", "DESIGN.md section 4 (C26)")
check("C27", "exploration",
  "Seeded request pairs/triples from simulated peers (IPv4, IPv6, IPv4-mapped; adversarial prefix-boundary pairs; names equal up to case; same and sibling wildcards; every RCODE category; TCP / non-QUERY / response-less requests in between) against a fresh one-response-per-stream limiter within one simulated second; oracle: B limited <=> an earlier eligible answered request is in B's stream, with stream equivalence computed independently. Sampling, not proof.",
  "Trusted: ground-truth stream names by construction of the zone; RCODE category taken from a limiter-less server running the same code. 'Different names share a stream' is re-keyed three times before it is reported (documented 32-bit QNAME hash).",
  "deterministic simulation: simulated peers and clock, seeded adversarial pair generation, independent stream-equivalence oracle",
  "E3 simrt-sequential", "DESIGN.md section 4 (C27)")
check("C28", "exploration",
  "Seeded search over interleavings (random + PCT) of 2-8 simulated threads hammering one response stream through the real handle_message/Rrl path, in bursts with the clock frozen and whole-second refills between bursts; exact conservation oracle: full responses == min(requests, capacity - used), slipped + dropped == rest, slip 0/1 semantics. Sampling of schedules, not proof.",
  "Trusted: shuttle-engine switching, simrt Mutex/RwLock wrappers (every lock/unlock is a scheduling point), the reference bucket. One stream per limiter.",
  "deterministic simulation: seeded schedule search over coroutine threads sharing the real bucket table; conservation oracle",
  "E1 simrt-threads", "DESIGN.md section 4 (C28)")
check("C32", "exploration",
  "Seeded search over interleavings of a swapper thread (set_catalog / set_tsig_keys for generations 1..G) with 2-4 query threads (plain and TSIG-signed, UDP/TCP) on the real Server; every record carries its catalog generation; oracles: one generation per response, freshness by event sequence numbers (no stale catalog after set_catalog returned), a signed request's outcome explained by exactly one key generation and the response MAC verifying under it (independent RFC 8945 implementation). Sampling of schedules, not proof.",
  "Trusted: shuttle RwLock model, the independent wire/TSIG code in the harness (HMAC construction written out over sha1/sha2 hash functions).",
  "deterministic simulation: seeded schedule search, generation-marker and event-sequence freshness oracles",
  "E1 simrt-threads", "DESIGN.md section 4 (C32)")
ENGINES[0]["serves_properties"] = ["C28", "C29", "C30", "C32"]
ENGINES.append({"name": "E2 tokio-paused", "path": "sim/simrt/src/tokio_net.rs + sim/harness/src/props/c30_tokio.rs", "serves_properties": ["C30"],
  "kind_free_text": "the real io/tokio.rs on a current-thread Tokio runtime with paused clock (discrete-event time) and RNG seeded from the recorded random stream, inside one simulated task; simulated async sockets with fault injection (short reads/writes, spurious Pending, datagram loss/dup/delay/send errors)"})
check("C30", "exploration",
  "Whole-system seeded runs of both I/O providers (even runs: blocking provider incl. thread pool and listener/UDP worker threads on simulated threads; odd runs: Tokio provider on a paused, seeded current-thread runtime) on a simulated network: arbitrary segmentation (down to single octets, inside the length prefix, across messages), pipelining / half-close / stop-and-wait, slow readers with back-pressure, response-less and malformed requests, resets and stalls, EINTR on every call, short reads/writes, datagram loss/dup/reorder/delay/truncation/send errors, spurious wake-ups, spawn failure, mid-run shutdown. Oracles: TCP byte stream == concatenation of len||reference_response up to the first response-less request, then EOF (exact under DES without connection faults; message-granular prefix otherwise); UDP: every datagram the server sends matches exactly one request it received (destination, source address selection, content, size <= payload) and, without send faults, every request is answered exactly once; shutdown completes within poll + read time-outs of simulated time; no provider thread/task panics. Sampling, not proof.",
  "Trusted: the simulated socket layer (the real socket code in src/io/socket/unix_*.rs is NOT run), shuttle-engine, Tokio's current-thread scheduler and paused clock. Reference responses come from the same Server code answering the request alone (that is the property). Step-bound exhaustion is inconclusive, never a violation.",
  "deterministic simulation: whole-system runs on a simulated network with seeded fault injection, schedule search (blocking) / seeded timing and fault search (Tokio), reference-stream oracle",
  "E1 simrt-threads", "DESIGN.md section 4 (C30)")
ENGINES[1]["serves_properties"] = ["C26", "C27", "C31"]
check("C31", "exploration",
  "Seeded histories of configuration and zone-file edits on a simulated file system and clock, each followed by the real SIGHUP reload body (config loader, mtime check, $INCLUDE-capable parser, validation, catalog swap) and UDP queries for every zone of a nested 5-zone universe; per-zone comparison with a 'latest good data' reference map (newly loaded / previously served / SERVFAIL / no longer served), including whole-reload failures (broken or missing configuration, duplicate zones) that must change nothing. Faults: missing files, directories, EIO after k octets, torn files, short reads. In a quarter of the runs 1-3 query threads run concurrently with every reload under a seeded schedule: each answer must come from the state before or after that reload, and from the new state once the reload has returned. Sampling, not proof.",
  "Trusted: the in-memory file system model (harness-stamped, strictly increasing mtimes), validity of generated zone files by construction. Signal delivery and daemon start-up are stubbed (the harness calls the handler body through the verif_reload hook).",
  "deterministic simulation: simulated file system and clock with injected I/O faults, history search against a reference model",
  "E3 simrt-sequential", "DESIGN.md section 4 (C31)")
ENGINES[1]["serves_properties"] = ["C24", "C25", "C26", "C27", "C31"]
check("C24", "exploration",
  "Seeded corpus of zone files (syntactically rich valid files, token soups, byte-level mutations, fields around the buffer and field-size limits, RFC 3597 generic RDATA valid and invalid for known types, forbidden types) parsed through a stream with injected read faults: read sizes 1..16385 (refills inside tokens), EINTR at chosen calls or for ever, EIO after k octets, torn after k octets (every k for small files), bit flips. Oracles: no unwind; bounded number of read calls (termination); nothing after the first error; every yielded record has an allowed type and RDATA accepted by Rdata::validate; independence from read chunking; after a read error the items yielded are a prefix of the fault-free sequence (may fail, never different data). Sampling, not proof.",
  "Trusted: Rdata::validate as the definition of valid RDATA (the property's own definition). The property's quantifier 'any input bytes' is sampled, not enumerated.",
  "deterministic simulation: fault-injecting Read stream (short reads, EINTR, EIO, torn, bit flips) over a seeded corpus, differential against the fault-free one-shot parse",
  "E3 simrt-sequential", "DESIGN.md section 4 (C24)")
check("C25", "exploration",
  "Seeded trees of 1-6 zone files on a simulated file system with $INCLUDE (with/without origin, relative / ../ / absolute paths, cycles), context-dependent records after includes, depth limits 0-16 and injected faults (missing target, directory, EIO after k octets, short reads); the real fs::Parser is compared record by record (path, line, owner, TTL, class, type, RDATA) and error by error (kind, path, line) with the harness's textual-flattening model. Sampling, not proof.",
  "Trusted: the flattening model (include replaced by optional $ORIGIN o + contents + restoring $ORIGIN), the repository's single-stream parser as the oracle for record syntax on the flattened text.",
  "deterministic simulation: simulated file system with injected I/O faults, reference flattening model",
  "E3 simrt-sequential", "DESIGN.md section 4 (C25)")
ENGINES[1]["serves_properties"] = ["C10", "C24", "C25", "C26", "C27", "C31"]
ENGINES.append({"name": "E4 seam-fault-enum", "path": "sim/harness/src/props/c01.rs", "serves_properties": ["C01"],
  "kind_free_text": "fault enumerator at the transport seam (Server::handle_message): exhaustive single-fault neighbourhood (truncation, substitution, count bumps, appends, tail duplication) of every corpus request x both transports x server configurations, plus seeded fault pairs; runs inside a one-task execution because the hooked Server needs the simulated runtime"})
check("C10", "exploration",
  "Seeded request sequences signed by an independent RFC 8945 implementation against the real server whose SystemTime::now() reads a simulated wall clock: client clock skew up to +-70000 s with mass on the fudge-window edges, server clock steps forwards/backwards between requests, fudge {0,1,300,65535}, MAC truncation {full, half, 10, 9, half-1, full+1}, tampered octets, wrong secret, unknown key, key configured for the other algorithm, unknown algorithm, UDP/TCP, EDNS, key-name case. Oracle = reference decision in RFC order (key, MAC size, MAC, time) and, per outcome, RCODE / TSIG error / empty MAC / no answer data / response MAC verified by the independent implementation / BADTIME fields / signed answer == unsigned answer. Sampling, not proof.",
  "Trusted: the harness's RFC 8945 digest assembly and HMAC construction (hash compression functions sha1/sha2 trusted). Wall clock kept inside [0, 2^40] s.",
  "deterministic simulation: simulated wall clock with injected steps and per-client skew, independent reference signer/verifier",
  "E3 simrt-sequential", "DESIGN.md section 4 (C10)")
check("C01", "fault_enumeration",
  "Exhaustive enumeration of the single-fault neighbourhood (truncation to every length; at every offset substitution by 10 values; every header count set to 0/+1/0xffff; junk appended; tail duplicated) of every request shape the simulated clients send (60 shapes quick, 400 thorough) on both transports under 8 server configurations (empty catalog, loaded/unloaded/failed entries, zones with malformed stored RDATA or without SOA, key sets, RRL, payload sizes), plus seeded random fault pairs; oracle: handle_message never unwinds. The property's own quantifier (all byte strings) is NOT covered: this decides the fault neighbourhood of realistic traffic only.",
  "Scope is the corpus neighbourhood, not all inputs. One known finding is listed in known_findings.json (TSIG RR that cannot fit a UDP response). The server instance is rebuilt after an unwind.",
  "deterministic simulation family, fault enumeration at the transport seam (exhaustive single faults + seeded pairs), unwind oracle",
  "E4 seam-fault-enum", "DESIGN.md section 4 (C01)")
