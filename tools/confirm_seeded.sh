#!/bin/bash
# usage: tools/confirm_seeded.sh <key> <ID> [demo features]
# Confirms a sub-agent's seeded change in its scratch worktree /tmp/wt-<key> (demo passes
# without, fails with; existing tests pass with), then runs /verif's quick check of <ID>
# against it (applied to /repo, reverted afterwards). Writes /verif/seeded/<key>/.
set -u
key="$1"; id="$2"; feat="${3:-}"
wt=/tmp/wt-$key; out=/tmp/seeded-out/$key; dst=/verif/seeded/$key
demo=$(ls $out/demo_* | head -1); demoname=$(basename "$demo" .rs)
mkdir -p "$dst"; cp "$out/patch.diff" "$dst/patch.diff"; cp "$demo" "$dst/"; cp "$out/notes.md" "$dst/agent_notes.md" 2>/dev/null
cd "$wt" || exit 2
git checkout -q -- src; mkdir -p tests; cp "$demo" tests/
export CARGO_NET_OFFLINE=true
fa=(); [ -n "$feat" ] && fa=(--features "$feat")
echo "--- demo WITHOUT the change"; timeout 900 cargo test --offline "${fa[@]}" --test "$demoname" > /tmp/cs.$key.without 2>&1; rc_without=$?; tail -3 /tmp/cs.$key.without
git apply "$out/patch.diff" || { echo "patch does not apply"; exit 2; }
echo "--- existing suite WITH the change"; timeout 1800 cargo test --offline --workspace --lib --bins > /tmp/cs.$key.suite 2>&1; rc_suite=$?; timeout 1800 cargo test --offline --workspace --doc >> /tmp/cs.$key.suite 2>&1; rc_suite=$(( rc_suite + $? )); grep "^test result" /tmp/cs.$key.suite
echo "--- demo WITH the change"; timeout 900 cargo test --offline "${fa[@]}" --test "$demoname" > /tmp/cs.$key.with 2>&1; rc_with=$?; tail -3 /tmp/cs.$key.with
git checkout -q -- src
echo "--- /verif check $id against the change"
cd /verif; tools/try_patch.sh "$dst/patch.diff" "$id" --no-selfcheck > /tmp/cs.$key.check 2>&1; rc_check=$?
grep -E "violation class|^\[$id\] [0-9]|HARNESS|VIOLATION" /tmp/cs.$key.check | cut -c1-300
echo "RESULT key=$key id=$id demo_without_rc=$rc_without suite_with_rc=$rc_suite demo_with_rc=$rc_with check_rc=$rc_check"
python3 - "$key" "$id" "$rc_without" "$rc_suite" "$rc_with" "$rc_check" <<'PY'
import json,sys,re
key,pid,rw,rs,rwi,rc=sys.argv[1:7]
chk=open(f'/tmp/cs.{key}.check').read()
classes=re.findall(r'violation class=(\S+)',chk)
meta={"property":pid,"key":key,
 "confirmed":{"demo_passes_without_change":rw=="0","existing_suite_passes_with_change":rs=="0","demo_fails_with_change":rwi!="0"},
 "needs_to_manifest":"see agent_notes.md",
 "ran":[f"cargo test --offline --test <demo> (without / with the change) in /tmp/wt-{key}", "cargo test --offline --workspace --lib --bins ; cargo test --offline --workspace --doc (with the change)", f"tools/try_patch.sh seeded/{key}/patch.diff {pid} --no-selfcheck"],
 "verif_check":{"id":pid,"exit":int(rc),"detected":rc=="1","violation_classes":classes}}
json.dump(meta,open(f'/verif/seeded/{key}/meta.json','w'),indent=1)
PY
