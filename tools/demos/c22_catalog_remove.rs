// Demonstration of finding F11 (property C22, not claimed by /verif: pure data structure).
// Place in <repo>/tests/ and run `cargo test --offline --test c22_catalog_remove`:
// fails before commit dd52415 ("fix: removing a catalog entry no longer removes an ancestor's
// entry"), passes from it on.
use quandary::class::Class;
use quandary::db::catalog::Entry;
use quandary::db::{Catalog, HashMapTreeCatalog, HashMapTreeZone};
use quandary::name::Name;
#[test]
fn removing_a_child_keeps_the_parent_entry() {
    let mut c: HashMapTreeCatalog<HashMapTreeZone, ()> = HashMapTreeCatalog::new();
    let a: Box<Name> = "a.".parse().unwrap();
    let ba: Box<Name> = "b.a.".parse().unwrap();
    c.insert(Entry::NotYetLoaded(a.clone(), Class::IN, ()));
    c.insert(Entry::NotYetLoaded(ba.clone(), Class::IN, ()));
    assert!(c.remove(&ba, Class::IN).is_some());
    assert!(c.get(&a, Class::IN).is_some(), "the parent's entry disappeared with its child");
    assert!(c.lookup(&ba, Class::IN).is_some(), "b.a. must now fall back on a.");
}
