use quandary_simrt as simrt;
use simrt::sched::*;
fn maps() -> usize { std::fs::read_to_string("/proc/self/maps").unwrap().lines().count() }
fn main() {
    let mode = std::env::args().nth(1).unwrap_or_default();
    let mut n = 0u64;
    set_plan_source(Box::new(move || { n += 1; if n % 5000 == 0 { eprintln!("n={n} maps={}", maps()); } if n > 20000 { None } else { Some(ExecPlan{seed:n, strategy: Strategy::Random, clock: ClockPolicy::Des, max_steps: 10000}) } }));
    let mut cfg = shuttle::Config::new(); cfg.stack_size = 1<<20; cfg.failure_persistence = shuttle::FailurePersistence::None;
    shuttle::Runner::new(SimScheduler::new(), cfg).run(move || {
        if mode == "noclock" { return; }
        simrt::start(simrt::WorldCfg::default());
        if mode == "threads" {
            let hs: Vec<_> = (0..3).map(|_| shuttle::thread::spawn(|| { simrt::thread::sleep(std::time::Duration::from_millis(5)); })).collect();
            for h in hs { h.join().unwrap(); }
        }
        simrt::finish();
    });
}
