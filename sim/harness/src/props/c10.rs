//! C10 – TSIG-signed requests are authenticated before being answered.
//!
//! The one nondeterministic input of this path is `SystemTime::now()` inside
//! `handle_message`; here it reads the simulated wall clock, which the fault
//! injector steps forwards and backwards, while simulated clients sign with
//! their own skewed clocks using an independent RFC 8945 implementation.
use crate::driver::{world_cfg, Prop, Tier};
use crate::qz;
use crate::tsigref::{self, Alg, SignSpec};
use crate::util::{chance, pick, range, viol, SplitMix};
use crate::wire;
use quandary::message::tsig::Algorithm;
use quandary::server::{Server, Transport, TsigKeyMap};
use quandary_simrt as simrt;
use serde::{Deserialize, Serialize};
use simrt::sched::{ClockPolicy, ExecPlan, ExecRecord, Strategy};
use simrt::{Fault, FaultCfg};
use std::net::{IpAddr, Ipv4Addr};
use std::sync::Arc;
use std::time::Duration;

#[derive(Clone, Debug, Serialize, Deserialize)]
pub struct Key {
    pub name: String,
    pub sha256: bool,
    pub secret_hex: String,
}
#[derive(Clone, Debug, Serialize, Deserialize)]
pub struct Req {
    /// server wall-clock step (seconds, relative to the unstepped simulated wall clock) before this request
    pub server_offset_s: i64,
    /// simulated time that passes before this request (ms)
    pub gap_ms: u64,
    /// the signing client's clock error (seconds; its clock = true server-side wall clock + skew)
    pub client_skew_s: i64,
    /// index into the key set
    pub key: usize,
    /// 0 as configured | 1 unknown key name | 2 known key, the other algorithm | 3 unknown algorithm name | 4 wrong secret
    pub signer: u8,
    pub fudge: u16,
    /// 0 full | 1 half | 2 ten | 3 nine | 4 half-1 | 5 full+1
    pub mac: u8,
    /// flip one covered octet after signing
    pub tamper: bool,
    pub tcp: bool,
    pub edns: bool,
    /// 6 TXT at a QNAME of 255 octets under the wildcard | 7 A at a QNAME of 250 octets that does not exist |
    /// 0 A www | 1 NXDOMAIN | 2 REFUSED | 3 MX | 4 big TXT (truncated over UDP: the TSIG RR must survive) | 5 ANY at the apex (truncated over UDP after name-bearing RRsets were written)
    pub question: u8,
    pub upper_key_name: bool,
    /// the request was relayed by a forwarder: its header ID differs from the TSIG original ID
    /// (RFC 8945 4.3.2: the MAC covers the message with the *original* ID)
    #[serde(default)]
    pub forwarded: bool,
    /// the request carries an unrelated record in its additional section, before OPT and TSIG
    /// (legal: RFC 8945 only requires the TSIG RR to be the last one)
    #[serde(default)]
    pub extra_additional: bool,
}
#[derive(Clone, Debug, Serialize, Deserialize)]
pub struct Scn {
    pub keys: Vec<Key>,
    pub reqs: Vec<Req>,
}
pub struct C10;

/// A name of exactly `total` octets on the wire that ends in `suffix` (an absolute name), made of
/// labels of `ch`.
fn long_name(total: usize, suffix: &str, ch: char) -> String {
    let suffix_wire = if suffix == "." { 1 } else { suffix.len() + 1 };
    let mut need = total.saturating_sub(suffix_wire);
    let mut labels = vec![];
    while need >= 2 {
        let mut take = need.min(64);
        if need - take == 1 {
            take -= 1;
        }
        labels.push(ch.to_string().repeat(take - 1));
        need -= take;
    }
    format!("{}.{}", labels.join("."), if suffix == "." { "" } else { suffix })
}

fn gen_skew(r: &mut SplitMix, fudge: u16) -> i64 {
    let f = fudge as i64;
    match r.below(13) {
        // a skew that is a multiple of 2^32 seconds off (+- the window): far outside the window,
        // but zero once truncated to 32 bits
        12 => (1i64 << 32) * *pick(r, &[1i64, 1, -1, 2, 256]) + *pick(r, &[0i64, 1, -1, f, -f, f + 1]),
        0..=3 => 0,
        4 => f,
        5 => -f,
        6 => f + 1,
        7 => -f - 1,
        8 => f - 1,
        9 => range(r, 0, 70_000) as i64,
        10 => -(range(r, 0, 70_000) as i64),
        _ => range(r, 0, 2) as i64 - 1,
    }
}

impl Prop for C10 {
    const ID: &'static str = "C10";
    type Scn = Scn;
    fn runs(tier: Tier) -> u64 {
        match tier {
            Tier::Quick => 600_000,
            Tier::Thorough => 50_000_000,
        }
    }
    fn gen(r: &mut SplitMix, _t: Tier, _i: u64) -> Scn {
        let nk = range(r, 1, 4) as usize;
        let keys = (0..nk)
            .map(|i| Key {
                name: if chance(r, 12) {
                    // a key name of up to 255 octets on the wire: together with a long QNAME the
                    // TSIG RR no longer fits a 512-octet response
                    long_name(*pick(r, &[200usize, 240, 254, 255]), *pick(r, &["example.", "keys.test.", "."]), (b'k' + i as u8) as char)
                } else {
                    format!("{}{}.{}", pick(r, &["key", "k", "transfer", "Host"]), i, pick(r, &["example.", "keys.test.", "", "elsewhere.", "sub.example.", "mail.example."])).replace("..", ".")
                },
                sha256: chance(r, 50),
                secret_hex: crate::util::hex(&(0..*pick(r, &[1usize, 16, 20, 32, 64, 100])).map(|_| r.next() as u8).collect::<Vec<u8>>()),
            })
            .collect();
        let n = range(r, 1, 6) as usize;
        let reqs = (0..n)
            .map(|_| {
                let fudge = *pick(r, &[0u16, 1, 300, 300, 65535]);
                Req {
                    server_offset_s: match r.below(6) {
                        0..=2 => 0,
                        3 => range(r, 0, 100_000) as i64,
                        4 => -(range(r, 0, 100_000) as i64),
                        _ => (1i64 << 39) - 1_700_000_000 - range(r, 0, 1000) as i64,
                    },
                    gap_ms: *pick(r, &[0u64, 1, 999, 1000, 3_600_000]),
                    client_skew_s: gen_skew(r, fudge),
                    key: r.below(nk as u64) as usize,
                    signer: match r.below(10) {
                        0..=5 => 0,
                        6 => 1,
                        7 => 2,
                        8 => 3,
                        _ => 4,
                    },
                    fudge,
                    mac: match r.below(10) {
                        0..=4 => 0,
                        x => (x - 4) as u8,
                    },
                    tamper: chance(r, 10),
                    tcp: chance(r, 30),
                    edns: chance(r, 30),
                    question: if chance(r, 15) { 6 + r.below(2) as u8 } else { r.below(6) as u8 },
                    upper_key_name: chance(r, 20),
                    forwarded: chance(r, 15),
                    extra_additional: chance(r, 8),
                }
            })
            .collect();
        Scn { keys, reqs }
    }
    fn plan(r: &mut SplitMix, _s: &Scn) -> ExecPlan {
        ExecPlan { seed: r.next(), strategy: Strategy::Random, clock: ClockPolicy::Des, max_steps: 100_000 }
    }
    fn run(scn: &Scn) {
        run(scn)
    }
    fn shrink(s: &Scn) -> Vec<Scn> {
        let mut out = vec![];
        for i in 0..s.reqs.len() {
            if s.reqs.len() > 1 {
                let mut c = s.clone();
                c.reqs.remove(i);
                out.push(c);
            }
        }
        for i in 0..s.reqs.len() {
            let q = &s.reqs[i];
            let mut simpler = vec![];
            if q.server_offset_s != 0 {
                simpler.push(Req { server_offset_s: 0, ..q.clone() });
            }
            if q.gap_ms != 0 {
                simpler.push(Req { gap_ms: 0, ..q.clone() });
            }
            if q.edns {
                simpler.push(Req { edns: false, ..q.clone() });
            }
            if q.tcp {
                simpler.push(Req { tcp: false, ..q.clone() });
            }
            if q.upper_key_name {
                simpler.push(Req { upper_key_name: false, ..q.clone() });
            }
            if q.extra_additional {
                simpler.push(Req { extra_additional: false, ..q.clone() });
            }
            if q.forwarded {
                simpler.push(Req { forwarded: false, ..q.clone() });
            }
            for n in simpler {
                let mut c = s.clone();
                c.reqs[i] = n;
                out.push(c);
            }
        }
        out
    }
    fn nontrivial(s: &Scn, _r: &ExecRecord) -> bool {
        s.reqs.iter().any(|q| q.signer != 0 || q.mac != 0 || q.tamper || q.client_skew_s != 0 || q.server_offset_s != 0)
    }
    fn case_hash(s: &Scn, _r: &ExecRecord) -> u64 {
        let mut h = 0xcbf29ce484222325u64;
        for b in serde_json::to_string(s).unwrap_or_default().bytes() {
            h = (h ^ b as u64).wrapping_mul(0x100000001b3);
        }
        h
    }
    fn rule() -> String {
        "one execution = a server with 1-4 TSIG keys (HMAC-SHA1/SHA256, random names and secrets of 1-100 octets) receiving 1-6 requests signed by an independent RFC 8945 implementation: client clock skew (0, +-fudge, +-(fudge+1), up to +-70000 s, multiples of 2^32 s), server wall-clock steps forwards/backwards between requests (incl. close to 2^39 s), fudge {0,1,300,65535}, MAC truncation {full, half, 10, 9, half-1, full+1}, tampered octet, wrong secret, unknown key, key with the other algorithm, unknown algorithm name, UDP/TCP, with/without EDNS, key names of up to 255 octets and QNAMEs of 250/255 octets (over UDP without EDNS the TSIG RR then cannot fit: the one legitimate TSIG-less response, empty with TC set), key names differing in case or sharing a suffix with names in the zone's RDATA (compression of the TSIG owner), answers truncated over UDP before and after name-bearing RRsets were written, requests relayed by a forwarder (header ID differs from the TSIG original ID), requests with an unrelated record in the additional section before OPT/TSIG. Non-trivial = at least one request is not a plain valid one; distinct = distinct scenario".into()
    }
    fn assumptions() -> Vec<String> {
        vec![
            "the server wall clock stays inside [0, 2^40] s since the epoch (outside it the 48-bit TimeSigned conversion is undefined by the type)".into(),
            "decision order of the reference: algorithm name, key (name + algorithm), MAC size, MAC, time (RFC 8945 section 5.2)".into(),
            "TSIG not last / wrong class / wrong TTL are C08's business and not generated".into(),
            "HMAC is written out over the sha1/sha2 compression functions, which are trusted".into(),
        ]
    }
    fn real_components() -> Vec<&'static str> {
        vec!["src/server/mod.rs (TSIG scan, key lookup, verification, response signing, SystemTime::now)", "src/message/tsig.rs", "src/message/{reader,writer}.rs", "src/rr/rdata/tsig.rs", "src/server/query.rs"]
    }
    fn stub_components() -> Vec<&'static str> {
        vec!["SystemTime::now -> simulated wall clock with injected steps", "clients: independent signer with per-client clock skew", "sockets (requests enter at handle_message)"]
    }
    fn engine() -> &'static str {
        "E3 simrt-sequential"
    }
    fn expected_probes() -> Vec<&'static str> {
        vec!["c10_ok", "c10_badsig", "c10_badkey", "c10_badtime", "c10_formerr_mac_size", "c10_window_edge_accepted", "c10_window_edge_rejected", "c10_truncated_mac_accepted", "c10_truncated_signed_response", "c10_forwarded_request", "c10_extra_additional_record", "c10_tsig_rr_cannot_fit"]
    }
}

fn run(scn: &Scn) {
    simrt::start(world_cfg(11, FaultCfg::none()));
    let catalog = qz::catalog_of(vec![qz::example_zone_with(1, true)]);
    let server = Server::new(catalog.clone());
    let reference = Server::new(catalog);
    let mut map = TsigKeyMap::new();
    for k in &scn.keys {
        map.insert(qz::qname(&k.name), (if k.sha256 { Algorithm::HmacSha256 } else { Algorithm::HmacSha1 }, crate::util::unhex(&k.secret_hex).into_boxed_slice()));
    }
    server.set_tsig_keys(Arc::new(map));
    let src = IpAddr::V4(Ipv4Addr::new(192, 0, 2, 99));
    let mut buf = vec![0u8; 65535];

    for (i, q) in scn.reqs.iter().enumerate() {
        if q.gap_ms > 0 {
            simrt::advance(Duration::from_millis(q.gap_ms));
        }
        if q.server_offset_s != simrt::wall_offset_s() {
            simrt::set_wall_offset(q.server_offset_s);
            simrt::count_fault(Fault::ClockJump);
        }
        if q.client_skew_s != 0 {
            simrt::count_fault(Fault::ClockSkew);
        }
        let server_now = simrt::time::wall_secs() as i64;
        let t_signed = (server_now + q.client_skew_s).max(0) as u64;
        let key = &scn.keys[q.key];
        let alg = if key.sha256 { Alg::Sha256 } else { Alg::Sha1 };
        // what the client puts on the wire
        let (sign_alg, alg_name) = match q.signer {
            2 => {
                let other = if key.sha256 { Alg::Sha1 } else { Alg::Sha256 };
                (other, other.name())
            }
            3 => (alg, wire::name("hmac-sha512-unknown.")),
            _ => (alg, alg.name()),
        };
        let wire_len = |n: &wire::Name| n.iter().map(|l| 1 + l.len()).sum::<usize>() + 1;
        let alg_wire = wire_len(&alg_name);
        let mut key_name = if q.signer != 1 {
            key.name.clone()
        } else if key.name.len() > 100 {
            format!("z{}", &key.name[1..])
        } else {
            format!("nosuch-{}", key.name)
        };
        if q.upper_key_name {
            key_name = key_name.to_ascii_uppercase();
        }
        let mut secret = crate::util::unhex(&key.secret_hex);
        if q.signer == 4 {
            secret[0] ^= 0x40;
        }
        let full = sign_alg.out_len();
        let half = (full + 1) / 2;
        let mac_len = match q.mac {
            0 => None,
            1 => Some(half),
            2 => Some(10),
            3 => Some(9),
            4 => Some(half - 1),
            _ => Some(full + 1),
        };
        let long_wild = long_name(255, "wild.example.", 'q');
        let long_nx = long_name(250, "example.", 'n');
        let (qn, qt) = match q.question {
            6 => (long_wild.as_str(), wire::T_TXT),
            7 => (long_nx.as_str(), wire::T_A),
            0 => ("www.example.", wire::T_A),
            1 => ("nosuch.example.", wire::T_A),
            2 => ("www.elsewhere.", wire::T_A),
            3 => ("example.", wire::T_MX),
            4 => ("big.example.", wire::T_TXT),
            // ANY at the apex: SOA, NS and MX (names in RDATA) are written before the large TXT
            // RRset overflows a UDP response and the sections are emptied again
            _ => ("example.", wire::T_ANY),
        };
        let unsigned = {
            let mut m = wire::Msg { id: 0x1000 + i as u16, flags: 0, ..Default::default() };
            m.questions.push(wire::Question { qname: wire::name(qn), qtype: qt, qclass: wire::C_IN });
            if q.extra_additional {
                m.additional.push(wire::Rr { owner: wire::name("extra.example."), rtype: wire::T_A, class: wire::C_IN, ttl: 5, rdata: vec![192, 0, 2, 7], rdata_off: 0, rr_off: 0 });
                simrt::probe("c10_extra_additional_record");
            }
            if q.edns {
                m.additional.push(wire::opt_rr(1232, 0, 0, &[]));
            }
            wire::encode(&m)
        };
        let spec = SignSpec { key_name: wire::name(&key_name), alg: sign_alg, alg_name, secret: secret.clone(), time: t_signed, fudge: q.fudge, mac_len };
        let (mut signed, req_mac) = tsigref::sign_request(&unsigned, &spec);
        let mut unsigned = unsigned;
        if q.forwarded {
            // a forwarder replaced the header ID; the TSIG RR keeps the original one
            for m in [&mut signed, &mut unsigned] {
                m[0] ^= 0x55;
                m[1] ^= 0xaa;
            }
            simrt::probe("c10_forwarded_request");
        }
        if q.tamper {
            signed[14] ^= 0x01; // an octet of the QNAME: covered by the MAC, still a well-formed message
        }
        let transport = if q.tcp { Transport::Tcp } else { Transport::Udp };
        let Some(n) = qz::ask_buf(&server, &signed, src, transport, &mut buf) else {
            viol("no-response-to-signed-request", format!("request {i}: {q:?}"));
            break;
        };
        let resp = buf[..n].to_vec();
        let m = match wire::decode(&resp) {
            Ok(m) => m,
            Err(e) => {
                viol("undecodable-response", format!("request {i}: {e:?}"));
                break;
            }
        };
        // --- reference decision (RFC 8945 order) ----------------------------------------
        let eff_mac_len = mac_len.unwrap_or(full);
        let min_len = 10usize.max(half);
        let mac_valid = q.signer != 4 && !q.tamper; // signed by the reference signer with the configured secret over the request as sent
        let expect = if q.signer == 3 || q.signer == 1 || q.signer == 2 {
            "badkey"
        } else if eff_mac_len > full || eff_mac_len < min_len {
            "formerr"
        } else if !mac_valid {
            "badsig"
        } else if (server_now - t_signed as i64).unsigned_abs() > q.fudge as u64 {
            "badtime"
        } else {
            "ok"
        };
        let tsig = m.tsig().and_then(|r| tsigref::parse_rdata(&r.rdata));
        let detail = |what: &str| format!("request {i} ({q:?}; server now {server_now}, time signed {t_signed}): expected {expect}: {what}; got rcode {} tsig {:?}", m.rcode(), tsig.as_ref().map(|t| (t.error, t.mac.len(), t.time, t.other.clone())));
        let no_data = m.answers.is_empty() && m.authority.is_empty();
        // --- the one response without a TSIG RR that is legitimate ------------------------
        // Over UDP a TSIG RR with long key (and algorithm) names after a long question can exceed
        // the response size limit. Then no TSIG-bearing response exists at all; the server sends
        // an empty response with TC set (the client retries over TCP). This is judged for every
        // expectation alike: never any data, and only when the RR can really not fit.
        if tsig.is_none() {
            let limit = match (q.tcp, q.edns) {
                (true, _) => 65535usize,
                (false, true) => 1232,
                (false, false) => 512,
            };
            let qlen = wire_len(&wire::name(qn)) + 4;
            let key_wire = wire_len(&wire::name(&key_name));
            let fixed = 12 + qlen + if q.edns { 11 } else { 0 };
            // the largest TSIG RR this exchange can need (uncompressed owner, full MAC, BADTIME other data)
            let certainly_fits = fixed + key_wire + 10 + alg_wire + 16 + full + 6 <= limit;
            let empty = no_data && m.additional.iter().all(|rr| rr.rtype == wire::T_OPT);
            if certainly_fits {
                viol(if expect == "ok" { "valid-request-unsigned-response" } else { "response-without-tsig-although-it-fits" }, detail("no TSIG RR in the response, although question and TSIG RR fit the size limit"));
                break;
            }
            if !(m.tc() && empty) {
                viol("tsig-does-not-fit-but-response-carries-data-or-no-tc", detail("a response that cannot carry its TSIG RR must be empty with TC set"));
                break;
            }
            simrt::probe("c10_tsig_rr_cannot_fit");
            continue;
        }
        match expect {
            "ok" => {
                simrt::probe("c10_ok");
                if (server_now - t_signed as i64).unsigned_abs() == q.fudge as u64 && q.fudge > 0 {
                    simrt::probe("c10_window_edge_accepted");
                }
                if mac_len.is_some() {
                    simrt::probe("c10_truncated_mac_accepted");
                }
                let Some(t) = &tsig else {
                    viol("valid-request-unsigned-response", detail("no TSIG in the response"));
                    break;
                };
                if t.error != 0 {
                    viol("valid-request-rejected", detail("TSIG error set"));
                    break;
                }
                if let Err(e) = tsigref::verify_response(&resp, &req_mac, alg, &crate::util::unhex(&key.secret_hex)) {
                    viol("response-mac-does-not-verify", detail(&e));
                    break;
                }
                if t.time as i64 != server_now {
                    viol("response-time-signed-is-not-server-time", detail("time signed"));
                    break;
                }
                // the answer itself equals the answer to the unsigned query
                let want = qz::ask(&reference, &unsigned, src, transport).expect("reference response");
                let last = m.additional.last().unwrap();
                let mut stripped = resp[..last.rr_off].to_vec();
                let ar = u16::from_be_bytes([stripped[10], stripped[11]]) - 1;
                stripped[10..12].copy_from_slice(&ar.to_be_bytes());
                if m.tc() {
                    // truncated: room for the TSIG RR changes where the cut falls, so only the
                    // signature (checked above) and the absence of partial RRsets are required
                    simrt::probe("c10_truncated_signed_response");
                } else if stripped != want {
                    viol("signed-answer-differs-from-unsigned-answer", detail("response without its TSIG RR differs from the response to the unsigned query"));
                    break;
                }
            }
            "badkey" | "badsig" => {
                simrt::probe(if expect == "badkey" { "c10_badkey" } else { "c10_badsig" });
                let code = if expect == "badkey" { 17 } else { 16 };
                let ok = m.rcode() == 9 && no_data && tsig.as_ref().map(|t| t.error == code && t.mac.is_empty()).unwrap_or(false);
                if !ok {
                    viol(if expect == "badkey" { "badkey-handling" } else { "badsig-handling" }, detail("want NOTAUTH, TSIG error set, empty MAC, no answer data"));
                    break;
                }
            }
            "formerr" => {
                simrt::probe("c10_formerr_mac_size");
                if m.rcode() != 1 || !no_data {
                    viol("mac-size-handling", detail("want FORMERR and no answer data"));
                    break;
                }
            }
            _ => {
                simrt::probe("c10_badtime");
                if (server_now - t_signed as i64).unsigned_abs() == q.fudge as u64 + 1 {
                    simrt::probe("c10_window_edge_rejected");
                }
                let ok = m.rcode() == 9 && no_data && tsig.as_ref().map(|t| t.error == 18).unwrap_or(false);
                if !ok {
                    viol("badtime-handling", detail("want NOTAUTH with TSIG error BADTIME and no answer data"));
                    break;
                }
                let t = tsig.as_ref().unwrap();
                if let Err(e) = tsigref::verify_response(&resp, &req_mac, alg, &crate::util::unhex(&key.secret_hex)) {
                    viol("badtime-response-not-verifiably-signed", detail(&e));
                    break;
                }
                // RFC 8945 5.2.3: time signed = the request's, other data = the server's time
                let other_now = t.other.iter().fold(0u64, |a, b| (a << 8) | *b as u64);
                if t.time != t_signed || t.other.len() != 6 || other_now as i64 != server_now {
                    viol("badtime-response-fields", detail("want time signed = request's and other data = server time"));
                    break;
                }
            }
        }
    }
    simrt::finish();
}
