pub mod c26;
pub mod c27;
pub mod c28;
pub mod c29;
pub mod c30;
pub mod c30_tokio;
pub mod c31;
pub mod c32;
