pub mod c29;
