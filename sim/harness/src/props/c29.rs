//! C29 – worker pools run every accepted task exactly once and shut down cleanly.
//!
//! Real code: `src/thread.rs` (ThreadGroup, ThreadPool) unmodified below its
//! `use` lines. Stubbed: OS threads (coroutines), Mutex/Condvar/Instant (simrt).
use crate::driver::{world_cfg, Prop, Tier};
use crate::util::{self, chance, pick, range, viol, SplitMix, Violation};
use quandary::thread::{Error, ThreadGroup};
use quandary_simrt as simrt;
use serde::{Deserialize, Serialize};
use simrt::sched::{ClockPolicy, ExecPlan, ExecRecord, Strategy};
use simrt::{Fault, FaultCfg};
use std::sync::atomic::{AtomicBool, AtomicU32, AtomicU64, Ordering::SeqCst};
use std::sync::Arc;
use std::time::Duration;

#[derive(Clone, Debug, Serialize, Deserialize)]
pub struct Op {
    /// simulated ms to wait before the call
    pub gap_ms: u64,
    /// true = submit_or_spawn, false = submit (blocking)
    pub or_spawn: bool,
    /// simulated ms the task body sleeps
    pub body_ms: u64,
    /// which pool (0 or 1)
    pub pool: usize,
    /// fault `task_panic`: the task body crashes (panics) 1 = as soon as it has started,
    /// 2 = after its sleep; 0 = runs to its end
    #[serde(default)]
    pub crash: u8,
}
#[derive(Clone, Debug, Serialize, Deserialize)]
pub struct Shutdown {
    pub at_ms: u64,
    /// "pool0", "pool1" or "group"
    pub what: String,
}
#[derive(Clone, Debug, Serialize, Deserialize)]
pub struct Scn {
    pub permanent: Vec<usize>,
    pub linger_ms: Vec<u64>,
    pub submitters: Vec<Vec<Op>>,
    pub shutdowns: Vec<Shutdown>,
    pub spurious_wakeup_pm: u16,
    pub spawn_fail_pm: u16,
    pub clock: String,
    pub strategy: String,
    /// a respawnable group thread whose body returns at once this many times (premature
    /// exits -> throttled respawns) and then blocks in await_start_of_shutdown
    #[serde(default)]
    pub respawnable_exits: Option<u32>,
    /// one-shot group threads started at these times (ms), each sleeping `.1` ms
    #[serde(default)]
    pub oneshots: Vec<(u64, u64)>,
    /// a thread that calls await_shutdown at this time (possibly long before any shutdown)
    #[serde(default)]
    pub early_awaiter_ms: Option<u64>,
    /// a thread that calls await_start_of_shutdown at this time
    #[serde(default)]
    pub start_waiter_ms: Option<u64>,
    /// pools started in the same group while the scenario runs (e.g. after another pool has been
    /// shut down on its own, so that its slot in the group's collection is reused):
    /// (start time ms, permanent workers, linger ms); their pool index follows the initial pools
    #[serde(default)]
    pub late_pools: Vec<(u64, usize, u64)>,
    /// the respawnable group thread crashes (panics) instead of returning, and one-shot group
    /// threads crash at the end of their body
    #[serde(default)]
    pub group_threads_crash: bool,
}

pub struct C29;

const MAX_STEPS: usize = 20_000;
/// decisions within which everything must have wound down after the final group shutdown
const LIVENESS_STEPS: usize = 5_000;
thread_local! {
    /// decision count at which the main task invoked the final group shutdown (None: not yet)
    static FINAL_SHUTDOWN_AT: std::cell::Cell<Option<usize>> = const { std::cell::Cell::new(None) };
}

fn dur_grid(r: &mut SplitMix, linger: u64) -> u64 {
    let l = linger.max(1);
    let g = [0, 0, 1, l.saturating_sub(1), l, l, l + 1, 2 * l, l / 2, 3];
    *pick(r, &g)
}

impl Prop for C29 {
    const ID: &'static str = "C29";
    type Scn = Scn;

    fn runs(tier: Tier) -> u64 {
        match tier {
            Tier::Quick => 450_000,
            Tier::Thorough => 20_000_000,
        }
    }

    fn gen(r: &mut SplitMix, _tier: Tier, _idx: u64) -> Scn {
        let two_pools = chance(r, 15);
        let np = if two_pools { 2 } else { 1 };
        let lingers = [0u64, 1, 1000, 15000];
        let permanent: Vec<usize> = (0..np).map(|_| range(r, 0, 2) as usize).collect();
        let linger_ms: Vec<u64> = (0..np).map(|_| *pick(r, &lingers)).collect();
        let ns = range(r, 1, 4) as usize;
        let mut submitters: Vec<Vec<Op>> = vec![];
        for _ in 0..ns {
            let nops = range(r, 1, 3) as usize;
            let mut ops = vec![];
            for _ in 0..nops {
                let pool = r.below(np as u64) as usize;
                let l = linger_ms[pool];
                ops.push(Op {
                    gap_ms: dur_grid(r, l),
                    or_spawn: chance(r, 65),
                    body_ms: if chance(r, 50) { 0 } else { dur_grid(r, l) },
                    pool,
                    crash: 0,
                });
            }
            submitters.push(ops);
        }
        let crashes = chance(r, 25);
        if crashes {
            for ops in submitters.iter_mut() {
                for o in ops.iter_mut() {
                    if chance(r, 40) {
                        o.crash = range(r, 1, 2) as u8;
                    }
                }
            }
        }
        let mut late_pools: Vec<(u64, usize, u64)> = vec![];
        if chance(r, 20) {
            late_pools.push((1 + dur_grid(r, 1000), range(r, 0, 2) as usize, *pick(r, &lingers)));
            // some submissions go to the late pool
            for ops in submitters.iter_mut() {
                for o in ops.iter_mut() {
                    if chance(r, 35) {
                        o.pool = np;
                        o.gap_ms += if chance(r, 70) { late_pools[0].0 } else { 0 };
                    }
                }
            }
        }
        let mut shutdowns = vec![];
        if !late_pools.is_empty() && chance(r, 60) {
            // an initial pool is shut down on its own before the late pool starts, and possibly
            // once more afterwards (a repeated call is legal)
            let at = late_pools[0].0;
            let p = r.below(np as u64);
            shutdowns.push(Shutdown { at_ms: r.below(at), what: format!("pool{p}") });
            if chance(r, 60) {
                shutdowns.push(Shutdown { at_ms: at + 1 + dur_grid(r, 1000), what: format!("pool{p}") });
            }
        } else if chance(r, 40) {
            let l = linger_ms[0];
            let what = match r.below(3) {
                0 => "group".to_string(),
                1 => "pool0".to_string(),
                _ => format!("pool{}", np - 1),
            };
            shutdowns.push(Shutdown { at_ms: dur_grid(r, l) + if chance(r, 50) { dur_grid(r, l) } else { 0 }, what });
        }
        let clock = match r.below(10) {
            0..=3 => "des".to_string(),
            4..=5 => "eager:5".to_string(),
            6..=7 => "eager:20".to_string(),
            _ => "eager:50".to_string(),
        };
        let strategy = match r.below(10) {
            0..=4 => "random".to_string(),
            5 => "pct:1".to_string(),
            6..=7 => "pct:2".to_string(),
            8 => "pct:3".to_string(),
            _ => "pct:4".to_string(),
        };
        Scn {
            permanent,
            linger_ms,
            submitters,
            shutdowns,
            spurious_wakeup_pm: if chance(r, 25) { 30 } else { 0 },
            spawn_fail_pm: if chance(r, 15) { 60 } else { 0 },
            clock,
            strategy,
            respawnable_exits: if chance(r, 20) { Some(range(r, 0, 3) as u32) } else { None },
            oneshots: if chance(r, 25) { (0..range(r, 1, 2)).map(|_| (dur_grid(r, 1000), dur_grid(r, 1000))).collect() } else { vec![] },
            early_awaiter_ms: if chance(r, 30) { Some(dur_grid(r, 1000)) } else { None },
            start_waiter_ms: if chance(r, 20) { Some(dur_grid(r, 1000)) } else { None },
            late_pools,
            group_threads_crash: crashes && chance(r, 50),
        }
    }

    fn plan(r: &mut SplitMix, scn: &Scn) -> ExecPlan {
        ExecPlan {
            seed: r.next(),
            strategy: crate::parse_strategy(&scn.strategy, 120),
            clock: crate::parse_clock(&scn.clock),
            max_steps: MAX_STEPS,
        }
    }

    fn bound_exceeded(scn: &Scn, _plan: &ExecPlan) -> Option<Violation> {
        // Bounded liveness, stated so that it cannot depend on how long the scenario itself
        // runs: once the final group shutdown has been *invoked* nothing is respawned any more and
        // everything must wind down within LIVENESS_STEPS decisions. A scenario that uses up the
        // budget before that point (e.g. a pool shut down on its own keeps respawning its permanent
        // workers at the respawn delay until the group goes down) is inconclusive. Only the fair
        // configuration gives a verdict; eager clocks and PCT are unfair by construction. The
        // scenario's own strategy/clock are used, not the plan's: a replay must judge alike.
        let fair = scn.clock == "des" && scn.strategy == "random" && scn.spurious_wakeup_pm == 0;
        let since_shutdown = FINAL_SHUTDOWN_AT.with(|f| f.get()).map(|at| MAX_STEPS.saturating_sub(at));
        match since_shutdown {
            Some(n) if fair && n >= LIVENESS_STEPS => Some(Violation {
                class: "no-progress-within-step-bound".into(),
                detail: format!("{n} scheduling decisions after the final group shutdown was invoked without completion, under the fair DES configuration"),
            }),
            _ => None,
        }
    }

    fn run(scn: &Scn) {
        run(scn)
    }
    fn stack_size() -> usize {
        256 << 10
    }

    fn shrink(s: &Scn) -> Vec<Scn> {
        let mut out = vec![];
        for i in 0..s.submitters.len() {
            if s.submitters.len() > 1 {
                let mut c = s.clone();
                c.submitters.remove(i);
                out.push(c);
            }
        }
        for i in 0..s.submitters.len() {
            for j in 0..s.submitters[i].len() {
                if s.submitters[i].len() > 1 {
                    let mut c = s.clone();
                    c.submitters[i].remove(j);
                    out.push(c);
                }
            }
        }
        if !s.shutdowns.is_empty() {
            let mut c = s.clone();
            c.shutdowns.clear();
            out.push(c);
        }
        if s.spurious_wakeup_pm > 0 {
            let mut c = s.clone();
            c.spurious_wakeup_pm = 0;
            out.push(c);
        }
        if s.spawn_fail_pm > 0 {
            let mut c = s.clone();
            c.spawn_fail_pm = 0;
            out.push(c);
        }
        if s.permanent.len() > 1 && s.submitters.iter().flatten().all(|o| o.pool == 0) {
            let mut c = s.clone();
            c.permanent.truncate(1);
            c.linger_ms.truncate(1);
            c.shutdowns.retain(|d| d.what != "pool1");
            out.push(c);
        }
        for p in 0..s.permanent.len() {
            if s.permanent[p] > 0 {
                let mut c = s.clone();
                c.permanent[p] -= 1;
                out.push(c);
            }
        }
        for i in 0..s.submitters.len() {
            for j in 0..s.submitters[i].len() {
                let o = &s.submitters[i][j];
                if o.crash != 0 {
                    let mut c = s.clone();
                    c.submitters[i][j].crash = 0;
                    out.push(c);
                }
                if o.body_ms > 0 {
                    let mut c = s.clone();
                    c.submitters[i][j].body_ms = 0;
                    out.push(c);
                }
                if o.gap_ms > 0 {
                    let mut c = s.clone();
                    c.submitters[i][j].gap_ms = 0;
                    out.push(c);
                }
            }
        }
        if s.respawnable_exits.is_some() {
            let mut c = s.clone();
            c.respawnable_exits = None;
            out.push(c);
        }
        if !s.oneshots.is_empty() {
            let mut c = s.clone();
            c.oneshots.clear();
            out.push(c);
        }
        if s.group_threads_crash {
            let mut c = s.clone();
            c.group_threads_crash = false;
            out.push(c);
        }
        if s.early_awaiter_ms.is_some() {
            let mut c = s.clone();
            c.early_awaiter_ms = None;
            out.push(c);
        }
        if s.start_waiter_ms.is_some() {
            let mut c = s.clone();
            c.start_waiter_ms = None;
            out.push(c);
        }
        if !s.late_pools.is_empty() && s.submitters.iter().flatten().all(|o| o.pool < s.permanent.len()) {
            let mut c = s.clone();
            c.late_pools.clear();
            out.push(c);
        }
        for i in 0..s.shutdowns.len() {
            if s.shutdowns.len() > 1 {
                let mut c = s.clone();
                c.shutdowns.remove(i);
                out.push(c);
            }
        }
        if s.clock != "des" {
            let mut c = s.clone();
            c.clock = "des".into();
            out.push(c);
        }
        out
    }

    fn nontrivial(_s: &Scn, rec: &ExecRecord) -> bool {
        rec.preemptions > 0 || rec.clock_preemptions > 0
    }
    fn rule() -> String {
        "one execution = one seeded scenario (pools with 0-2 permanent workers, linger 0/1ms/1s/15s, 1-4 submitters x 1-3 submit/submit_or_spawn calls on a time grid aligned with the linger value, optional pool/group shutdown actors (a pool may be shut down twice), optionally a pool started while the scenario runs - after another pool of the group was shut down on its own, so that its slot in the group's collection is reused -, optional respawnable group thread that exits prematurely, one-shot group threads, a thread waiting in await_shutdown / await_start_of_shutdown before any shutdown, optional spurious wake-ups and thread-spawn failures; in a quarter of the scenarios task bodies and group threads crash (panic) - on permanent workers, which are then respawned with throttling, and on auxiliary workers) under one seeded schedule (random or PCT depth 1-4; DES or eager clock). Non-trivial = at least one preemption of a runnable task or one eager timer firing; distinct = distinct (scenario, recorded schedule) hash".into()
    }
    fn assumptions() -> Vec<String> {
        vec![
            "a crashing (panicking) task body is simulated as a contained unwind (fault task_panic): the thread unwinds through quandary's drop handlers with thread::panicking() true in that thread only, and ends; a crash counts as the task having run".into(),
            "'thread has exited' is observed as: the thread's closure has returned (end_thread bookkeeping done, no further user code)".into(),
            "step-bound exhaustion is a violation only under DES + fair random scheduling without spurious wake-ups and only if at least 5000 decisions were left after the final group shutdown had been invoked; otherwise inconclusive".into(),
        ]
    }
    fn real_components() -> Vec<&'static str> {
        vec!["src/thread.rs (ThreadGroup, ThreadPool, respawn logic, pool_worker_loop)"]
    }
    fn stub_components() -> Vec<&'static str> {
        vec!["OS threads -> shuttle coroutines", "std::sync::{Mutex,Condvar} -> simrt::sync (timed Condvar on a simulated clock)", "std::time::Instant -> simrt::time", "thread creation failure -> fault spawn_fail", "panicking thread -> contained unwind inside the coroutine (fault task_panic; vendored shuttle-engine patch)"]
    }
    fn engine() -> &'static str {
        "E1 simrt-threads"
    }
    fn expected_probes() -> Vec<&'static str> {
        vec!["condvar_wait_timed_out", "c29_respawned_after_premature_exit", "c29_early_awaiter_returned", "c29_submit_rejected_after_shutdown", "c29_spawn_failed", "c29_task_ran_after_pool_shutdown", "c29_submit_blocked_until_shutdown", "c29_late_pool_started", "thread_crash_contained"]
    }
}

struct OpRec {
    task: usize,
    invoked: u64,
    returned: u64,
    ok: bool,
    err_shutting_down: bool,
    pool: usize,
}

fn run(scn: &Scn) {
    let faults = FaultCfg::none()
        .with(Fault::SpuriousWakeup, scn.spurious_wakeup_pm)
        .with(Fault::SpawnFail, scn.spawn_fail_pm);
    simrt::start(world_cfg(1, faults));
    FINAL_SHUTDOWN_AT.with(|f| f.set(None));

    let n_tasks: usize = scn.submitters.iter().map(|s| s.len()).sum();
    let started: Arc<Vec<AtomicU32>> = Arc::new((0..n_tasks).map(|_| AtomicU32::new(0)).collect());
    let finished: Arc<Vec<AtomicU32>> = Arc::new((0..n_tasks).map(|_| AtomicU32::new(0)).collect());
    let after_await = Arc::new(AtomicBool::new(false));
    let late_activity = Arc::new(AtomicU32::new(0));
    let recs: Arc<std::sync::Mutex<Vec<OpRec>>> = Arc::new(std::sync::Mutex::new(vec![]));
    // submit calls invoked and not yet returned, per pool (plain atomics: no scheduling points)
    let inflight: Arc<Vec<AtomicU32>> = Arc::new((0..scn.permanent.len() + scn.late_pools.len()).map(|_| AtomicU32::new(0)).collect());
    // event stamp at which a shutdown call of pool p (or the group) returned
    let n_pools = scn.permanent.len() + scn.late_pools.len();
    let pool_down: Arc<Vec<AtomicU64>> = Arc::new((0..n_pools).map(|_| AtomicU64::new(u64::MAX)).collect());

    // event stamp at which the first group.shut_down() was *invoked*
    let group_down_invoked = Arc::new(AtomicU64::new(u64::MAX));
    let group = ThreadGroup::new();
    // pool slots (plain std mutexes: harness bookkeeping, not scheduling points)
    type Slot = std::sync::Mutex<Option<Arc<quandary::thread::ThreadPool>>>;
    let pools: Arc<Vec<Slot>> = Arc::new((0..n_pools).map(|_| std::sync::Mutex::new(None)).collect());
    for p in 0..scn.permanent.len() {
        match group.start_pool(Some(format!("p{p}")), scn.permanent[p], Duration::from_millis(scn.linger_ms[p])) {
            Ok(pool) => *pools[p].lock().unwrap() = Some(pool),
            Err(Error::Io(_)) => simrt::probe("c29_spawn_failed"),
            Err(Error::ShuttingDown) => viol("start-pool-rejected", "start_pool returned ShuttingDown before any shutdown".into()),
        }
    }
    // total simulated time after which everything submitted has had time to run
    let mut horizon_ms = 0u64;
    let mut hs = vec![];
    let mut base = 0usize;
    for ops in &scn.submitters {
        let t: u64 = ops.iter().map(|o| o.gap_ms + o.body_ms).sum();
        horizon_ms = horizon_ms.max(t);
        let (ops, pools, started, finished, after_await, late, recs, inflight) =
            (ops.clone(), pools.clone(), started.clone(), finished.clone(), after_await.clone(), late_activity.clone(), recs.clone(), inflight.clone());
        let first = base;
        base += ops.len();
        hs.push(shuttle::thread::spawn(move || {
            for (k, op) in ops.iter().enumerate() {
                if op.gap_ms > 0 {
                    simrt::thread::sleep(Duration::from_millis(op.gap_ms));
                }
                let task = first + k;
                let Some(pool) = pools[op.pool].lock().unwrap().clone() else { continue };
                let (started, finished, after_await, late) = (started.clone(), finished.clone(), after_await.clone(), late.clone());
                let (body_ms, crash) = (op.body_ms, op.crash);
                let body = move || {
                    if after_await.load(SeqCst) {
                        late.fetch_add(1, SeqCst);
                    }
                    started[task].fetch_add(1, SeqCst);
                    simrt::event("task_body_start", task as u64, 0);
                    if crash == 1 {
                        simrt::thread::crash();
                    }
                    if body_ms > 0 {
                        simrt::thread::sleep(Duration::from_millis(body_ms));
                    }
                    if crash == 2 {
                        if after_await.load(SeqCst) {
                            late.fetch_add(1, SeqCst);
                        }
                        simrt::thread::crash();
                    }
                    finished[task].fetch_add(1, SeqCst);
                    if after_await.load(SeqCst) {
                        late.fetch_add(1, SeqCst);
                    }
                };
                let invoked = simrt::event("submit_invoked", task as u64, op.or_spawn as u64);
                inflight[op.pool].fetch_add(1, SeqCst);
                let r = if op.or_spawn { pool.submit_or_spawn(body) } else { pool.submit(body) };
                inflight[op.pool].fetch_sub(1, SeqCst);
                let returned = simrt::event("submit_returned", task as u64, r.is_ok() as u64);
                if matches!(r, Err(Error::Io(_))) {
                    simrt::probe("c29_spawn_failed");
                }
                recs.lock().unwrap().push(OpRec {
                    task,
                    invoked,
                    returned,
                    ok: r.is_ok(),
                    err_shutting_down: matches!(r, Err(Error::ShuttingDown)),
                    pool: op.pool,
                });
            }
        }));
    }
    for sd in &scn.shutdowns {
        horizon_ms = horizon_ms.max(sd.at_ms);
        let (sd, pools, group, pool_down, gdi) = (sd.clone(), pools.clone(), group.clone(), pool_down.clone(), group_down_invoked.clone());
        hs.push(shuttle::thread::spawn(move || {
            simrt::thread::sleep(Duration::from_millis(sd.at_ms));
            simrt::count_fault(Fault::Shutdown);
            if sd.what == "group" {
                gdi.fetch_min(simrt::stamp(), SeqCst);
                group.shut_down();
                let s = simrt::event("group_shut_down_returned", 0, 0);
                for p in pool_down.iter() {
                    p.fetch_min(s, SeqCst);
                }
            } else {
                let p: usize = sd.what.trim_start_matches("pool").parse().unwrap_or(0);
                let pool = pools.get(p).and_then(|s| s.lock().unwrap().clone());
                if let Some(pool) = pool {
                    pool.shut_down();
                    pool_down[p].fetch_min(simrt::event("pool_shut_down_returned", p as u64, 0), SeqCst);
                }
            }
        }));
    }

    for (k, (at, permanent, linger)) in scn.late_pools.iter().enumerate() {
        horizon_ms = horizon_ms.max(*at);
        let (group, pools, gdi, at, permanent, linger, ix) = (group.clone(), pools.clone(), group_down_invoked.clone(), *at, *permanent, *linger, scn.permanent.len() + k);
        hs.push(shuttle::thread::spawn(move || {
            simrt::thread::sleep(Duration::from_millis(at));
            let invoked = simrt::stamp();
            match group.start_pool(Some(format!("late{k}")), permanent, Duration::from_millis(linger)) {
                Ok(pool) => {
                    simrt::probe("c29_late_pool_started");
                    *pools[ix].lock().unwrap() = Some(pool)
                }
                Err(Error::Io(_)) => simrt::probe("c29_spawn_failed"),
                Err(Error::ShuttingDown) => {
                    // legal only if a group shutdown had been invoked by the time the call returned
                    let returned = simrt::stamp();
                    if gdi.load(SeqCst) > returned {
                        viol("start-pool-rejected", format!("start_pool (invoked at event {invoked}) returned ShuttingDown at event {returned} although no group shutdown had been invoked by then"));
                    }
                }
            }
        }));
    }

    // --- group-level actors ----------------------------------------------------------
    let respawn_runs = Arc::new(AtomicU32::new(0));
    if let Some(exits) = scn.respawnable_exits {
        let (g2, runs, after_await, late, crash) = (group.clone(), respawn_runs.clone(), after_await.clone(), late_activity.clone(), scn.group_threads_crash);
        let r = group.start_respawnable(Some("extra".into()), move || {
            if after_await.load(SeqCst) {
                late.fetch_add(1, SeqCst);
            }
            let n = runs.fetch_add(1, SeqCst);
            if n >= exits {
                g2.await_start_of_shutdown();
            } else if crash {
                simrt::thread::crash();
            }
            // returning before shutdown = premature exit: the group respawns the thread (throttled)
        });
        if matches!(r, Err(Error::Io(_))) {
            simrt::probe("c29_spawn_failed");
        }
    }
    let oneshot_ran: Arc<Vec<AtomicU32>> = Arc::new((0..scn.oneshots.len()).map(|_| AtomicU32::new(0)).collect());
    let oneshot_ok: Arc<Vec<AtomicU32>> = Arc::new((0..scn.oneshots.len()).map(|_| AtomicU32::new(0)).collect());
    for (k, (at, body_ms)) in scn.oneshots.iter().enumerate() {
        horizon_ms = horizon_ms.max(at + body_ms);
        let (group, ran, ok, after_await, late, at, body_ms, crash) = (group.clone(), oneshot_ran.clone(), oneshot_ok.clone(), after_await.clone(), late_activity.clone(), *at, *body_ms, scn.group_threads_crash);
        hs.push(shuttle::thread::spawn(move || {
            simrt::thread::sleep(Duration::from_millis(at));
            let (ran2, after2, late2) = (ran.clone(), after_await.clone(), late.clone());
            let r = group.start_oneshot(Some(format!("oneshot{k}")), move || {
                if after2.load(SeqCst) {
                    late2.fetch_add(1, SeqCst);
                }
                ran2[k].fetch_add(1, SeqCst);
                if body_ms > 0 {
                    simrt::thread::sleep(Duration::from_millis(body_ms));
                }
                ran2[k].fetch_add(100, SeqCst);
                if after2.load(SeqCst) {
                    late2.fetch_add(1, SeqCst);
                }
                if crash {
                    simrt::thread::crash();
                }
            });
            match r {
                Ok(()) => ok[k].store(1, SeqCst),
                Err(Error::Io(_)) => simrt::probe("c29_spawn_failed"),
                Err(Error::ShuttingDown) => ok[k].store(2, SeqCst),
            }
        }));
    }
    if let Some(at) = scn.early_awaiter_ms {
        let (group, after_await, gdi) = (group.clone(), after_await.clone(), group_down_invoked.clone());
        hs.push(shuttle::thread::spawn(move || {
            simrt::thread::sleep(Duration::from_millis(at));
            group.await_shutdown();
            after_await.store(true, SeqCst);
            let now = simrt::stamp();
            if gdi.load(SeqCst) > now {
                viol("await-shutdown-returned-before-shutdown-began", format!("await_shutdown returned at event {now}, no group shut_down had been invoked"));
            }
            simrt::probe("c29_early_awaiter_returned");
        }));
    }
    if let Some(at) = scn.start_waiter_ms {
        let (group, gdi) = (group.clone(), group_down_invoked.clone());
        hs.push(shuttle::thread::spawn(move || {
            simrt::thread::sleep(Duration::from_millis(at));
            group.await_start_of_shutdown();
            let now = simrt::stamp();
            if gdi.load(SeqCst) > now {
                viol("await-start-of-shutdown-returned-early", format!("await_start_of_shutdown returned at event {now}, no group shut_down had been invoked"));
            }
        }));
    }

    // Let the scenario play out, then shut the group down *before* joining the
    // submitters: a submitter blocked in `submit` on a pool without workers is
    // legal and is released only by shutdown.
    let max_linger = scn.linger_ms.iter().copied().chain(scn.late_pools.iter().map(|l| l.2)).max().unwrap_or(0);
    simrt::thread::sleep(Duration::from_millis(horizon_ms + max_linger + 2_000));
    // A `submit` may block only while every permanent worker of its pool is busy. Under the fair
    // configuration (DES: nothing runnable is left behind when time advances) and without failing
    // thread creation, wait long enough for all work ever submitted to drain (every body's sleep,
    // ten seconds per crash - ten times the respawn delay -, one linger) and look again: a submitter still inside `submit`
    // on a live pool that has permanent workers means those workers sit idle and are not counted
    // as available (e.g. a worker respawned after a crash that never re-enters the accounting).
    let fair = scn.clock == "des" && scn.strategy == "random" && scn.spurious_wakeup_pm == 0 && scn.spawn_fail_pm == 0;
    if fair && inflight.iter().any(|c| c.load(SeqCst) > 0) {
        let all_bodies: u64 = scn.submitters.iter().flatten().map(|o| o.body_ms).sum();
        let crashes = scn.submitters.iter().flatten().filter(|o| o.crash != 0).count() as u64;
        simrt::thread::sleep(Duration::from_millis(all_bodies + 10_000 * (crashes + 1) + max_linger + 2_000));
        for p in 0..inflight.len() {
            let permanent = if p < scn.permanent.len() { scn.permanent[p] } else { scn.late_pools[p - scn.permanent.len()].1 };
            let live = pools[p].lock().unwrap().as_ref().map(|pool| !pool.is_shutting_down()).unwrap_or(false);
            if inflight[p].load(SeqCst) > 0 && permanent > 0 && live {
                viol("submit-blocked-although-workers-idle", format!("{} submit call(s) on pool {p} ({permanent} permanent workers, not shut down) still blocked after all submitted work had time to finish", inflight[p].load(SeqCst)));
            } else if inflight[p].load(SeqCst) > 0 {
                simrt::probe("c29_submit_legitimately_blocked");
            }
        }
    }
    let blocked_before = recs.lock().unwrap().len();
    group_down_invoked.fetch_min(simrt::stamp(), SeqCst);
    FINAL_SHUTDOWN_AT.with(|f| f.set(Some(simrt::sched::decisions_so_far())));
    group.shut_down();
    let s = simrt::event("main_group_shut_down_returned", 0, 0);
    for p in pool_down.iter() {
        p.fetch_min(s, SeqCst);
    }
    for h in hs {
        let _ = h.join();
    }
    if recs.lock().unwrap().len() > blocked_before {
        simrt::probe("c29_submit_blocked_until_shutdown");
    }
    group.await_shutdown();
    after_await.store(true, SeqCst);
    // every thread the pools/groups created must now run to its end
    simrt::thread::wait_all_exited();

    // ---- oracles --------------------------------------------------------------
    let recs = recs.lock().unwrap();
    for r in recs.iter() {
        let (st, fi) = (started[r.task].load(SeqCst), finished[r.task].load(SeqCst));
        if r.ok {
            if st == 0 {
                viol("accepted-task-never-ran", format!("task {} accepted by {} on pool {} ran 0 times by the time await_shutdown returned", r.task, if scn_op(scn, r.task).or_spawn { "submit_or_spawn" } else { "submit" }, r.pool));
            } else if st > 1 || fi > 1 {
                viol("accepted-task-ran-twice", format!("task {} started {} times, finished {} times", r.task, st, fi));
            } else if scn_op(scn, r.task).crash != 0 {
                if fi != 0 {
                    viol("crashed-task-finished", format!("task {} crashes by construction but reached its end", r.task));
                }
            } else if fi == 0 {
                viol("task-unfinished-at-await-return", format!("task {} started but had not finished when await_shutdown returned", r.task));
            }
        } else if st > 0 {
            viol("rejected-task-ran", format!("task {} was rejected but its body ran {} times", r.task, st));
        }
        let down = pool_down[r.pool].load(SeqCst);
        if r.invoked > down {
            if r.ok || !r.err_shutting_down {
                viol("submit-accepted-after-shutdown", format!("task {}: submit invoked at event {} after shutdown returned at event {} gave ok={}", r.task, r.invoked, down, r.ok));
            } else {
                simrt::probe("c29_submit_rejected_after_shutdown");
            }
        }
        if r.ok && r.returned > down {
            simrt::probe("c29_task_ran_after_pool_shutdown");
        }
    }
    for k in 0..scn.oneshots.len() {
        let (ran, ok) = (oneshot_ran[k].load(SeqCst), oneshot_ok[k].load(SeqCst));
        match ok {
            1 if ran != 101 => viol("oneshot-not-run-exactly-once", format!("one-shot thread {k} was started (Ok) but its body count is {ran} (101 = started and finished once) when await_shutdown returned")),
            2 if ran != 0 => viol("rejected-task-ran", format!("one-shot thread {k} was rejected but ran ({ran})")),
            _ => {}
        }
    }
    if scn.respawnable_exits.is_some() && respawn_runs.load(SeqCst) > 1 {
        simrt::probe("c29_respawned_after_premature_exit");
    }
    if late_activity.load(SeqCst) > 0 {
        viol("task-active-after-await-returned", format!("{} task body start/finish events after await_shutdown returned", late_activity.load(SeqCst)));
    }
    if simrt::thread::live() != 0 {
        viol("thread-alive-after-await", format!("{} threads still alive", simrt::thread::live()));
    }
    drop(recs);
    let _ = util::has_violation();
    simrt::finish();
}

fn scn_op(scn: &Scn, task: usize) -> &Op {
    scn.submitters.iter().flatten().nth(task).expect("task index")
}
