//! C28 – rate limiting counts correctly under concurrent requests.
//!
//! Real code: `Server::handle_message` → `Rrl::process_response` (shared
//! `Vec<Mutex<Entry>>`), the whole query path below it. Stubbed: threads
//! (coroutines), Mutex/RwLock, the clock (frozen during a burst, advanced by
//! whole seconds between bursts), RandomState, thread_rng.
use crate::driver::{world_cfg, Prop, Tier};
use crate::qz;
use crate::util::{chance, pick, range, viol, SplitMix};
use crate::wire;
use quandary::server::{RrlParams, Server, Transport};
use quandary_simrt as simrt;
use serde::{Deserialize, Serialize};
use simrt::sched::{ClockPolicy, ExecPlan};
use simrt::FaultCfg;
use std::net::{IpAddr, Ipv4Addr};
use std::sync::atomic::{AtomicU32, Ordering::SeqCst};
use std::sync::Arc;
use std::time::Duration;

#[derive(Clone, Debug, Serialize, Deserialize)]
pub struct Scn {
    pub rate: u32,
    pub window: u32,
    pub slip: usize,
    pub table_size: usize,
    pub tasks: usize,
    pub per_task: usize,
    /// whole seconds the clock advances before each burst (first entry: before burst 0)
    pub gaps_s: Vec<u64>,
    pub hash_key: u64,
    pub strategy: String,
    /// "noerror" | "nxdomain" | "refused"
    pub category: String,
    /// moving-clock mode: the clock is *not* frozen; it advances (eager clock policy) while
    /// requests are in flight - a thread can be preempted inside `handle_message` across a second
    /// boundary. Each thread pauses this long (cyclic, ms) between its requests; empty = classic mode.
    #[serde(default)]
    pub pauses_ms: Vec<u64>,
}

pub struct C28;

impl Prop for C28 {
    const ID: &'static str = "C28";
    type Scn = Scn;

    fn runs(tier: Tier) -> u64 {
        match tier {
            Tier::Quick => 400_000,
            Tier::Thorough => 15_000_000,
        }
    }
    fn gen(r: &mut SplitMix, _t: Tier, _i: u64) -> Scn {
        let nb = range(r, 1, 3) as usize;
        Scn {
            rate: range(r, 1, 5) as u32,
            window: range(r, 1, 4) as u32,
            slip: *pick(r, &[0usize, 0, 1, 1, 2, 5]),
            table_size: if chance(r, 3) { 65_537 } else { *pick(r, &[1usize, 1, 2, 7, 64]) },
            tasks: if chance(r, 10) { range(r, 9, 16) as usize } else { range(r, 2, 8) as usize },
            per_task: range(r, 1, 6) as usize,
            gaps_s: (0..nb).map(|i| if i == 0 { 0 } else { range(r, 0, 3) }).collect(),
            hash_key: r.next(),
            strategy: match r.below(10) {
                0..=4 => "random".into(),
                5..=6 => "pct:2".into(),
                7..=8 => "pct:3".into(),
                _ => "pct:5".into(),
            },
            category: pick(r, &["noerror", "noerror", "nxdomain", "refused"]).to_string(),
            pauses_ms: if chance(r, 20) { (0..range(r, 1, 4)).map(|_| *pick(r, &[0u64, 0, 40, 300, 700, 1000, 1100])).collect() } else { vec![] },
        }
    }
    fn plan(r: &mut SplitMix, scn: &Scn) -> ExecPlan {
        ExecPlan {
            seed: r.next(),
            strategy: crate::parse_strategy(&scn.strategy, (scn.tasks * scn.per_task * 6) as u32),
            clock: if scn.pauses_ms.is_empty() { ClockPolicy::Des } else { ClockPolicy::Eager(30) },
            max_steps: 100_000,
        }
    }
    fn run(scn: &Scn) {
        if scn.pauses_ms.is_empty() {
            run(scn)
        } else {
            run_moving_clock(scn)
        }
    }
    fn shrink(s: &Scn) -> Vec<Scn> {
        let mut out = vec![];
        if s.gaps_s.len() > 1 {
            let mut c = s.clone();
            c.gaps_s.pop();
            out.push(c);
        }
        if s.tasks > 2 {
            let mut c = s.clone();
            c.tasks -= 1;
            out.push(c);
        }
        if s.per_task > 1 {
            let mut c = s.clone();
            c.per_task -= 1;
            out.push(c);
        }
        if s.table_size != 1 {
            let mut c = s.clone();
            c.table_size = 1;
            out.push(c);
        }
        if s.window > 1 {
            let mut c = s.clone();
            c.window -= 1;
            out.push(c);
        }
        if s.rate > 1 {
            let mut c = s.clone();
            c.rate -= 1;
            out.push(c);
        }
        if s.slip != 0 {
            let mut c = s.clone();
            c.slip = 0;
            out.push(c);
        }
        if s.pauses_ms.len() > 1 {
            let mut c = s.clone();
            c.pauses_ms.pop();
            out.push(c);
        }
        out
    }
    fn rule() -> String {
        "one execution = 2-16 simulated threads x 1-6 identical UDP queries per burst (one stream: same /24, same QNAME up to case, same category), 1-3 bursts separated by whole simulated seconds, under one seeded schedule (random / PCT 2-5); rate 1-5, window 1-4, slip {0,1,2,5}, table size {1,2,7,64,65537}. In a fifth of the runs the clock moves while requests are in flight (eager clock, a ticker thread, pauses between a thread's requests) and the count is judged against the bucket's envelope over time. Non-trivial = at least one preemption; distinct = distinct (scenario, schedule) hash".into()
    }
    fn assumptions() -> Vec<String> {
        vec![
            "exactly one response stream per limiter: a colliding stream legally evicts the resident entry (documented in RrlParams), which would make the exact count oracle unsound".into(),
            "classic mode: the clock is frozen within a burst ('within one second') and advances by whole seconds between bursts; moving-clock mode (a fifth of the runs): the clock advances while requests are in flight, and the oracle is the bucket's envelope - at every instant t the number of full responses already returned is at most capacity + rate x whole seconds since the first request was invoked, and at least min(requests, capacity) are sent in all".into(),
        ]
    }
    fn real_components() -> Vec<&'static str> {
        vec!["src/server/rrl.rs (Rrl::process_response, bucket table)", "src/server/mod.rs + query.rs (handle_message down to the zone lookup)", "src/db (catalog, zone tree)", "src/message (reader/writer)"]
    }
    fn stub_components() -> Vec<&'static str> {
        vec!["OS threads -> shuttle coroutines", "std::sync::{Mutex,RwLock} -> simrt::sync", "Instant -> simulated clock", "RandomState -> keyed deterministic hasher", "rand::thread_rng -> recorded random stream"]
    }
    fn engine() -> &'static str {
        "E1 simrt-threads"
    }
    fn expected_probes() -> Vec<&'static str> {
        vec!["c28_burst_hit_limit", "c28_refill_between_bursts", "c28_slipped", "c28_dropped", "c28_moving_clock_runs", "c28_request_spanned_a_second_boundary"]
    }
}

fn run(scn: &Scn) {
    simrt::start(world_cfg(scn.hash_key, FaultCfg::none()));
    let catalog = qz::catalog_of(vec![qz::example_zone(1)]);
    let mut server = Server::new(catalog);
    let mut p = RrlParams::new(scn.rate, scn.rate, scn.rate, scn.window).expect("params");
    p.set_slip(scn.slip);
    p.set_size(scn.table_size).expect("size");
    server.set_rrl_params(Some(p));
    let server = Arc::new(server);
    let cap = (scn.rate * scn.window) as u64;
    let (qn, qtype): (&str, u16) = match scn.category.as_str() {
        "nxdomain" => ("nosuch.example.", wire::T_A),
        "refused" => ("www.elsewhere.", wire::T_A),
        _ => ("www.example.", wire::T_A),
    };

    // reference bucket (u128 arithmetic)
    let (mut used, mut last, mut first): (u128, u128, bool) = (0, 0, true);
    for (b, gap) in scn.gaps_s.iter().enumerate() {
        if *gap > 0 {
            simrt::advance(Duration::from_secs(*gap));
        }
        let now = simrt::now_ns() as u128;
        let requests = (scn.tasks * scn.per_task) as u128;
        // expected number of full responses in this burst
        let avail = if first {
            first = false;
            last = now;
            used = 0;
            cap as u128
        } else {
            let e = now - last;
            if e >= 1_000_000_000 {
                let s = e / 1_000_000_000;
                let before = used;
                used = used.saturating_sub(scn.rate as u128 * s);
                last += s * 1_000_000_000;
                if used < before {
                    simrt::probe("c28_refill_between_bursts");
                }
            }
            cap as u128 - used
        };
        let expect_sent = requests.min(avail);
        used += expect_sent;
        if expect_sent < requests {
            simrt::probe("c28_burst_hit_limit");
        }

        let sent = Arc::new(AtomicU32::new(0));
        let slipped = Arc::new(AtomicU32::new(0));
        let dropped = Arc::new(AtomicU32::new(0));
        let bad = Arc::new(std::sync::Mutex::new(None::<String>));
        let hs: Vec<_> = (0..scn.tasks)
            .map(|k| {
                let (server, sent, slipped, dropped, bad) = (server.clone(), sent.clone(), slipped.clone(), dropped.clone(), bad.clone());
                let (per, qn) = (scn.per_task, qn.to_string());
                shuttle::thread::spawn(move || {
                    let mut buf = vec![0u8; 2048];
                    for i in 0..per {
                        // vary the case of the QNAME: still the same stream
                        let q: String = qn
                            .chars()
                            .enumerate()
                            .map(|(j, c)| if (j + i + k) % 3 == 0 { c.to_ascii_uppercase() } else { c })
                            .collect();
                        let msg = wire::query((b * 1000 + k * 10 + i) as u16, &q, qtype);
                        let src = IpAddr::V4(Ipv4Addr::new(192, 0, 2, (k + 1) as u8));
                        match qz::ask_buf(&server, &msg, src, Transport::Udp, &mut buf) {
                            None => {
                                dropped.fetch_add(1, SeqCst);
                            }
                            Some(n) => match wire::decode(&buf[..n]) {
                                Ok(m) if m.tc() => {
                                    if !m.answers.is_empty() || !m.authority.is_empty() || m.additional.iter().any(|r| r.rtype != wire::T_OPT && r.rtype != wire::T_TSIG) {
                                        *bad.lock().unwrap() = Some(format!("slipped response carries records: {m:?}"));
                                    }
                                    slipped.fetch_add(1, SeqCst);
                                }
                                Ok(_) => {
                                    sent.fetch_add(1, SeqCst);
                                }
                                Err(e) => *bad.lock().unwrap() = Some(format!("undecodable response: {e:?}")),
                            },
                        }
                    }
                })
            })
            .collect();
        for h in hs {
            let _ = h.join();
        }
        let (s, sl, d) = (sent.load(SeqCst) as u128, slipped.load(SeqCst) as u128, dropped.load(SeqCst) as u128);
        if sl > 0 {
            simrt::probe("c28_slipped");
        }
        if d > 0 {
            simrt::probe("c28_dropped");
        }
        if let Some(b) = bad.lock().unwrap().take() {
            viol("bad-response", b);
        }
        if s != expect_sent {
            viol(
                if s > expect_sent { "more-responses-than-bucket-allows" } else { "fewer-responses-than-bucket-allows" },
                format!("burst {b}: {requests} requests, bucket allows {expect_sent}, {s} full responses sent ({sl} slipped, {d} dropped); rate {} window {}", scn.rate, scn.window),
            );
        }
        if s + sl + d != requests {
            viol("responses-do-not-add-up", format!("burst {b}: sent {s} + slipped {sl} + dropped {d} != {requests}"));
        }
        if scn.slip == 0 && sl > 0 {
            viol("slip0-slipped", format!("burst {b}: slip 0 but {sl} responses slipped"));
        }
        if scn.slip == 1 && d > 0 {
            viol("slip1-dropped", format!("burst {b}: slip 1 but {d} responses dropped"));
        }
        if crate::util::has_violation() {
            break;
        }
    }
    simrt::finish();
}

/// Moving-clock mode: requests of one stream from several threads while simulated time passes
/// (a ticker keeps timers pending; the eager clock lets them fire between any two scheduling
/// points, so a request can be preempted inside `handle_message` across a second boundary).
fn run_moving_clock(scn: &Scn) {
    simrt::start(world_cfg(scn.hash_key, FaultCfg::none()));
    simrt::probe("c28_moving_clock_runs");
    let catalog = qz::catalog_of(vec![qz::example_zone(1)]);
    let mut server = Server::new(catalog);
    let mut p = RrlParams::new(scn.rate, scn.rate, scn.rate, scn.window).expect("params");
    p.set_slip(scn.slip);
    p.set_size(scn.table_size).expect("size");
    server.set_rrl_params(Some(p));
    let server = Arc::new(server);
    let cap = (scn.rate * scn.window) as u64;
    let (qn, qtype): (&str, u16) = match scn.category.as_str() {
        "nxdomain" => ("nosuch.example.", wire::T_A),
        "refused" => ("www.elsewhere.", wire::T_A),
        _ => ("www.example.", wire::T_A),
    };
    // (invoked ns, returned ns, full response)
    let log: Arc<std::sync::Mutex<Vec<(u64, u64, bool)>>> = Arc::new(std::sync::Mutex::new(vec![]));
    let bad = Arc::new(std::sync::Mutex::new(None::<String>));
    let per = scn.per_task * scn.gaps_s.len().max(1);
    let done = Arc::new(AtomicU32::new(0));
    let ticker = {
        let (done, tasks) = (done.clone(), scn.tasks as u32);
        shuttle::thread::spawn(move || {
            // keeps a timer pending every quarter second until the query threads are done
            let mut n = 0;
            while done.load(SeqCst) < tasks && n < 400 {
                simrt::thread::sleep(Duration::from_millis(250));
                n += 1;
            }
        })
    };
    let hs: Vec<_> = (0..scn.tasks)
        .map(|k| {
            let (server, log, bad, done) = (server.clone(), log.clone(), bad.clone(), done.clone());
            let (qn, pauses) = (qn.to_string(), scn.pauses_ms.clone());
            shuttle::thread::spawn(move || {
                let mut buf = vec![0u8; 2048];
                for i in 0..per {
                    let pause = pauses[(i + k) % pauses.len()];
                    if pause > 0 {
                        simrt::thread::sleep(Duration::from_millis(pause));
                    }
                    let msg = wire::query((k * 100 + i) as u16, &qn, qtype);
                    let src = IpAddr::V4(Ipv4Addr::new(192, 0, 2, (k + 1) as u8));
                    let t0 = simrt::now_ns();
                    let r = qz::ask_buf(&server, &msg, src, Transport::Udp, &mut buf);
                    let t1 = simrt::now_ns();
                    if t1 / 1_000_000_000 != t0 / 1_000_000_000 {
                        simrt::probe("c28_request_spanned_a_second_boundary");
                    }
                    let full = match r {
                        None => false,
                        Some(n) => match wire::decode(&buf[..n]) {
                            Ok(m) => !m.tc(),
                            Err(e) => {
                                *bad.lock().unwrap() = Some(format!("undecodable response: {e:?}"));
                                false
                            }
                        },
                    };
                    log.lock().unwrap().push((t0, t1, full));
                }
                done.fetch_add(1, SeqCst);
            })
        })
        .collect();
    for h in hs {
        let _ = h.join();
    }
    let _ = ticker.join();
    if let Some(b) = bad.lock().unwrap().take() {
        viol("bad-response", b);
    }
    let mut log = log.lock().unwrap().clone();
    let requests = log.len() as u64;
    let t_first = log.iter().map(|x| x.0).min().unwrap_or(0);
    // envelope: full responses already returned at time t  <=  capacity + rate x whole seconds
    // since the first request of the stream was invoked (the bucket's first refill instant
    // cannot lie before that)
    log.sort_by_key(|x| x.1);
    let mut sent = 0u64;
    for (_, returned, full) in &log {
        if *full {
            sent += 1;
            let allowed = cap + scn.rate as u64 * ((returned - t_first) / 1_000_000_000);
            if sent > allowed {
                viol(
                    "more-responses-than-bucket-allows",
                    format!("moving clock: {sent} full responses had been returned {} ms after the stream's first request was invoked; capacity {cap} + rate {} x whole seconds allows {allowed}", (returned - t_first) / 1_000_000, scn.rate),
                );
                break;
            }
        }
    }
    if sent < requests.min(cap) && !crate::util::has_violation() {
        viol("fewer-responses-than-bucket-allows", format!("moving clock: {sent} full responses to {requests} requests, the bucket's capacity is {cap}"));
    }
    simrt::finish();
}
