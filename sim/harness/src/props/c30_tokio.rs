//! C30, Tokio provider: the real `io/tokio.rs` on a paused, seeded
//! current-thread Tokio runtime (engine E2) inside one simulated task.
use super::c30::*;
use crate::driver::world_cfg;
use crate::util::viol;
use quandary::server::Transport;
use quandary_simrt as simrt;
use simrt::Fault;
use std::sync::Arc;
use std::time::Duration;
use tokio::io::{AsyncReadExt, AsyncWriteExt};

pub fn run(scn: &Scn) {
    simrt::start(world_cfg(3, fault_cfg(scn)));
    simrt::probe("c30_tokio_runs");
    let seed = simrt::rng_u64();
    let rt = tokio::runtime::Builder::new_current_thread()
        .enable_time()
        .start_paused(true)
        .rng_seed(tokio::runtime::RngSeed::from_bytes(&seed.to_le_bytes()))
        .build()
        .expect("runtime");
    rt.block_on(run_async(scn));
    drop(rt);
    simrt::account_tokio_time();
    simrt::finish();
}

async fn run_async(scn: &Scn) {
    use quandary::io::TokioIoProvider;
    simrt::follow_tokio_clock();
    let server = Arc::new(make_server(scn));
    let reference_server = make_server(scn);
    let (tcp_addrs, udp_addrs) = server_addrs(scn);
    let provider = TokioIoProvider::bind(tcp_addrs, udp_addrs).await.expect("bind");
    let ctl = provider.start(&server);

    if scn.calibrate {
        use std::sync::atomic::Ordering::SeqCst;
        let mut c = simrt::tokio_net::connect(target_addr(false, false), tcp_client_addr(0, false), 1 << 20).expect("connect");
        let t0 = simrt::now_ns();
        let mut b = [0u8; 8];
        if let Ok(Ok(0)) = tokio::time::timeout(Duration::from_secs(3600), c.read(&mut b)).await {
            READ_TIMEOUT_MS[1].store(((simrt::now_ns() - t0) / 1_000_000).max(100), SeqCst);
        }
        drop(c);
        tokio::time::sleep(Duration::from_millis(100)).await;
        let t0 = simrt::now_ns();
        ctl.shut_down().await;
                simrt::tokio_net::set_runtime_dropped();
        IDLE_SHUTDOWN_MS[1].store((simrt::now_ns() - t0) / 1_000_000, SeqCst);
        return;
    }
    let plans: Vec<Arc<TcpPlan>> = (0..scn.tcp.len()).map(|i| Arc::new(tcp_plan(scn, i, &reference_server))).collect();
    let results: Vec<Arc<std::sync::Mutex<TcpResult>>> = (0..scn.tcp.len()).map(|_| Arc::new(std::sync::Mutex::new(TcpResult::default()))).collect();
    let mut hs = vec![];
    for (ci, c) in scn.tcp.iter().enumerate() {
        let (c, plan, result) = (c.clone(), plans[ci].clone(), results[ci].clone());
        let (budget, patience) = (msg_budget_ms(scn), client_patience(scn));
        hs.push(tokio::spawn(async move {
            tokio::time::sleep(Duration::from_millis(c.connect_ms)).await;
            let Ok(stream) = simrt::tokio_net::connect(target_addr(c.v6, false), tcp_client_addr(ci, c.v6), c.cap.max(8)) else {
                result.lock().unwrap().read_error = Some("connection refused".into());
                return;
            };
            let (mut rd, mut wr) = tokio::io::split(stream);
            let (mut seg_i, mut msg_elapsed) = (0usize, 0u64);
            if c.mode == 2 {
                let mut from = 0;
                let mut resp_i = 0;
                for end in plan.msg_ends.iter() {
                    if !client_write(&mut wr, &c, &plan, from, *end, &mut seg_i, &mut msg_elapsed, budget).await {
                        break;
                    }
                    from = *end;
                    if resp_i < plan.resp_ends.len() {
                        client_read(&mut rd, &c, &result, Some(plan.resp_ends[resp_i]), patience).await;
                        resp_i += 1;
                        let r = result.lock().unwrap();
                        if r.eof || r.timed_out || r.read_error.is_some() {
                            break;
                        }
                    }
                }
                let done = {
                    let r = result.lock().unwrap();
                    r.eof || r.timed_out || r.read_error.is_some()
                };
                if c.fault == 1 {
                    simrt::count_fault(Fault::TcpPeerReset);
                } else if !done {
                    if c.fault == 2 {
                        simrt::count_fault(Fault::ClientStall);
                    }
                    client_read(&mut rd, &c, &result, None, patience).await;
                }
            } else {
                let (c2, r2) = (c.clone(), result.clone());
                let reader_task = tokio::spawn(async move {
                    client_read(&mut rd, &c2, &r2, None, patience).await;
                    rd
                });
                let all = client_write(&mut wr, &c, &plan, 0, plan.stream.len(), &mut seg_i, &mut msg_elapsed, budget).await;
                if c.fault == 1 {
                    // abortive close: both halves go away without reading
                    simrt::count_fault(Fault::TcpPeerReset);
                    reader_task.abort();
                    let _ = reader_task.await;
                    return;
                } else if c.fault == 2 {
                    simrt::count_fault(Fault::ClientStall);
                } else if all && c.mode == 0 {
                    let _ = wr.shutdown().await;
                    simrt::count_fault(Fault::TcpPeerHalfClose);
                }
                let _ = reader_task.await;
                if plan.msg_ends.len() > 1 {
                    simrt::probe("c30_tcp_leftover_pipelined");
                }
            }
            drop(wr);
        }));
    }
    for (ui, u) in scn.udp.iter().enumerate() {
        let u = u.clone();
        let payload = scn.payload as usize;
        // requests on which the server code itself unwinds are C01's business
        let msgs: Vec<Vec<u8>> = u
            .reqs
            .iter()
            .enumerate()
            .map(|(j, spec)| build_req(spec, (0x8000 + ui * 256 + j) as u16))
            .filter(|m| reference(&reference_server, &m[..m.len().min(payload)], udp_client_addr(ui, u.v6).ip(), Transport::Udp).is_ok())
            .collect();
        hs.push(tokio::spawn(async move {
            tokio::time::sleep(Duration::from_millis(u.start_ms)).await;
            let me = udp_client_addr(ui, u.v6);
            let to = target_addr(u.v6, u.second_addr);
            let _sock = simrt::tokio_net::AsyncUdpSocket::bind_client(me);
            for msg in msgs {
                simrt::tokio_net::send_datagram(me, to, &msg);
                if u.gap_ms > 0 {
                    tokio::time::sleep(Duration::from_millis(u.gap_ms)).await;
                }
            }
        }));
    }

    let des = true;
    let mut midrun = false;
    let clients = async {
        for h in hs {
            let _ = h.await;
        }
    };
    tokio::pin!(clients);
    let mut took_ms = 0;
    match scn.shutdown_at_ms {
        Some(at) => {
            let stopped_early = tokio::select! {
                _ = &mut clients => false,
                _ = tokio::time::sleep(Duration::from_millis(at)) => true,
            };
            if stopped_early {
                midrun = true;
                simrt::count_fault(Fault::Shutdown);
                simrt::probe("c30_shutdown_midrun");
                let t0 = simrt::now_ns();
                ctl.shut_down().await;
                let midrun_took = (simrt::now_ns() - t0) / 1_000_000;
                simrt::tokio_net::set_runtime_dropped();
                // with well-behaved clients only, every connection task finishes the message it is
                // at (the client completes it within the message budget), answers it and leaves
                let polite = scn.tcp.iter().all(|c| c.fault == 0 && c.read_pause_ms == 0 && c.cap >= 1 << 20);
                let bound = shutdown_bound_ms(scn) + msg_budget_ms(scn) + 1_000;
                if polite && scn.faults.is_empty() {
                    simrt::probe("c30_midrun_shutdown_bound_checked");
                    if midrun_took > bound {
                        viol("shutdown-too-slow", format!("tokio provider: with well-behaved clients still sending, shut_down() completed {midrun_took} simulated ms after the request (bound {bound} ms: idle-shutdown bound + one message budget)"));
                    }
                }
                clients.await;
            } else {
                tokio::time::sleep(Duration::from_millis(2_500)).await;
                ctl.shut_down().await;
                simrt::tokio_net::set_runtime_dropped();
            }
        }
        None => {
            clients.await;
            tokio::time::sleep(Duration::from_millis(2_500)).await;
            let t0 = simrt::now_ns();
            ctl.shut_down().await;
                simrt::tokio_net::set_runtime_dropped();
            took_ms = (simrt::now_ns() - t0) / 1_000_000;
        }
    }
    if !midrun && took_ms > shutdown_bound_ms(scn) {
        viol("shutdown-too-slow", format!("tokio provider: shut_down() completed {took_ms} simulated ms after the request (bound {} ms)", shutdown_bound_ms(scn)));
    }
    if simrt::tokio_net::late_io() > 0 {
        // TokioShutdownController::shut_down "waits for [the server tasks] to terminate"; the
        // daemon drops the runtime right afterwards, so a task that is still alive is cancelled
        // mid-connection (torn or missing responses)
        viol("server-task-alive-after-shutdown-returned", format!("tokio provider: {} server-side socket operations after shut_down() had returned", simrt::tokio_net::late_io()));
    }
    if let Some((m, loc)) = crate::util::take_last_panic() {
        viol(&format!("panic@{}", crate::util::norm_location(&loc)), format!("a task of the Tokio provider panicked: {m}"));
    }
    let exact_ok = des && !midrun;
    for ci in 0..scn.tcp.len() {
        let res = results[ci].lock().unwrap();
        judge_tcp(scn, ci, &plans[ci], &res, exact_ok && scn.tcp[ci].fault == 0);
        if crate::util::has_violation() {
            break;
        }
    }
    let log = simrt::tokio_net::take_udp_log();
    let complete = des && !midrun && !has_fault(scn, "udp_send_error") && !has_fault(scn, "udp_recv_error");
    if !crate::util::has_violation() {
        judge_udp(scn, &log, &reference_server, complete);
    }
}

async fn client_read<R: tokio::io::AsyncRead + Unpin>(s: &mut R, c: &TcpClient, result: &std::sync::Mutex<TcpResult>, until: Option<usize>, patience: Duration) {
    let mut buf = vec![0u8; c.read_chunk];
    let pause = if c.mode == 2 { 0 } else { c.read_pause_ms };
    loop {
        if let Some(u) = until {
            if result.lock().unwrap().received.len() >= u {
                return;
            }
        }
        let r = tokio::time::timeout(patience, s.read(&mut buf)).await;
        {
            let mut res = result.lock().unwrap();
            match r {
                Ok(Ok(0)) => {
                    res.eof = true;
                    return;
                }
                Ok(Ok(n)) => res.received.extend(&buf[..n]),
                Ok(Err(e)) => {
                    res.read_error = Some(e.to_string());
                    return;
                }
                Err(_) => {
                    res.timed_out = true;
                    return;
                }
            }
        }
        if pause > 0 {
            tokio::time::sleep(Duration::from_millis(pause)).await;
        }
    }
}

async fn client_write<W: tokio::io::AsyncWrite + Unpin>(s: &mut W, c: &TcpClient, plan: &TcpPlan, from: usize, to: usize, seg_i: &mut usize, msg_elapsed: &mut u64, budget_ms: u64) -> bool {
    let mut off = from;
    while off < to {
        if c.fault != 0 && off >= c.fault_after {
            return false;
        }
        let mut n = c.segs[*seg_i % c.segs.len()].min(to - off);
        if c.fault != 0 {
            n = n.min(c.fault_after.saturating_sub(off).max(1));
        }
        if n < to - off {
            simrt::count_fault(Fault::TcpSegmentSplit);
        }
        if s.write_all(&plan.stream[off..off + n]).await.is_err() {
            return false;
        }
        let before = off;
        off += n;
        // a write that carries the last octet of a message starts the next message's clock
        if plan.msg_ends.iter().any(|e| *e > before && *e <= off) {
            *msg_elapsed = 0;
        }
        let pause = c.pauses_ms[*seg_i % c.pauses_ms.len()];
        *seg_i += 1;
        if pause > 0 && *msg_elapsed + pause <= budget_ms {
            *msg_elapsed += pause;
            simrt::count_fault(Fault::TcpDelay);
            tokio::time::sleep(Duration::from_millis(pause)).await;
        }
    }
    true
}
