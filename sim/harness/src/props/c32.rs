//! C32 – concurrent catalog and key swaps never mix snapshots.
//!
//! Real code: `Server::{set_catalog,set_tsig_keys,handle_message}` and
//! everything below (query answering, TSIG verification and signing).
//! Stubbed: threads (coroutines), RwLock (simrt), wall clock (simulated).
use crate::driver::{world_cfg, Prop, Tier};
use crate::qz::{self, Cat};
use crate::tsigref::{self, Alg, SignSpec};
use crate::util::{pick, range, viol, SplitMix};
use crate::wire;
use quandary::message::tsig::Algorithm;
use quandary::server::{Server, Transport, TsigKeyMap};
use quandary_simrt as simrt;
use serde::{Deserialize, Serialize};
use simrt::sched::{ClockPolicy, ExecPlan};
use simrt::FaultCfg;
use std::net::{IpAddr, Ipv4Addr};
use std::sync::Arc;

#[derive(Clone, Debug, Serialize, Deserialize)]
pub struct Scn {
    pub generations: usize,
    pub query_tasks: usize,
    pub queries_per_task: usize,
    pub strategy: String,
    /// per query task, per query: (kind 0..5 [+8 = signed with a stale time], tcp, signed_with_generation or -1)
    pub plan: Vec<Vec<(u8, bool, i32)>>,
    /// the swapper sets keys before (true) or after (false) the catalog
    pub keys_first: bool,
}
pub struct C32;

fn secret(g: usize) -> Vec<u8> {
    (0..32u8).map(|i| i ^ (g as u8).wrapping_mul(37) ^ 0x5a).collect()
}

fn catalog(g: usize) -> Arc<Cat> {
    let gb = g as u8;
    let mut z = qz::ZoneBuilder::new("gen.test.", wire::C_IN);
    z.add("gen.test.", wire::T_SOA, 60, &wire::soa_rdata(&format!("ns{g}.gen.test."), "h.gen.test.", 100 + g as u32));
    z.add("gen.test.", wire::T_NS, 60, &wire::name_wire(&format!("ns{g}.gen.test.")));
    z.add(&format!("ns{g}.gen.test."), wire::T_A, 60, &[10, 1, gb, 1]);
    z.add("gen.test.", wire::T_MX, 60, &{
        let mut v = (g as u16).to_be_bytes().to_vec();
        v.extend(wire::name_wire("mx.gen.test."));
        v
    });
    z.add("mx.gen.test.", wire::T_A, 60, &[10, 0, gb, 1]);
    z.add("mx.gen.test.", wire::T_AAAA, 60, &[0x20, 1, 0xd, 0xb8, 0, 0, 0, 0, 0, 0, 0, 0, 0, 0, gb, 1]);
    z.add("txt.gen.test.", wire::T_TXT, 60, &wire::txt_rdata(format!("g={g}").as_bytes()));
    z.add("sub.gen.test.", wire::T_NS, 60, &wire::name_wire(&format!("ns{g}.sub.gen.test.")));
    z.add(&format!("ns{g}.sub.gen.test."), wire::T_A, 60, &[10, 2, gb, 1]);
    z.add("*.w.gen.test.", wire::T_TXT, 60, &wire::txt_rdata(format!("g={g}").as_bytes()));
    // a CNAME into a *sibling zone* of the same catalog; its target label carries g, and the
    // sibling zone of every generation holds all five targets, each marked with that zone's own g
    z.add("cross.gen.test.", wire::T_CNAME, 60, &wire::name_wire(&format!("t{g}.other.test.")));
    let mut o = qz::ZoneBuilder::new("other.test.", wire::C_IN);
    o.add("other.test.", wire::T_SOA, 60, &wire::soa_rdata(&format!("ns{g}.other.test."), "h.other.test.", 100 + g as u32));
    o.add("other.test.", wire::T_NS, 60, &wire::name_wire(&format!("ns{g}.other.test.")));
    o.add(&format!("ns{g}.other.test."), wire::T_A, 60, &[10, 3, gb, 1]);
    for h in 0..5 {
        o.add(&format!("t{h}.other.test."), wire::T_TXT, 60, &wire::txt_rdata(format!("g={g}").as_bytes()));
    }
    qz::catalog_of(vec![z.finish(), o.finish()])
}
/// Key generation g: the key `k.` is absent in generation 3, uses HMAC-SHA1 in odd and
/// HMAC-SHA256 in even generations, and always has its own secret; an unrelated key is
/// always present.
fn key_alg(g: usize) -> Option<Alg> {
    match g {
        3 => None,
        g if g % 2 == 1 => Some(Alg::Sha1),
        _ => Some(Alg::Sha256),
    }
}
fn keys(g: usize) -> Arc<TsigKeyMap> {
    let mut m = TsigKeyMap::new();
    if let Some(a) = key_alg(g) {
        m.insert(qz::qname("k."), (if a == Alg::Sha1 { Algorithm::HmacSha1 } else { Algorithm::HmacSha256 }, secret(g).into_boxed_slice()));
    }
    m.insert(qz::qname("other."), (Algorithm::HmacSha256, secret(77).into_boxed_slice()));
    Arc::new(m)
}

/// Generation markers carried by one RR, if any.
fn marker(msg: &[u8], rr: &wire::Rr) -> Result<Option<usize>, String> {
    let from_ns_name = |n: &wire::Name| -> Option<usize> {
        let l = std::str::from_utf8(n.first()?).ok()?;
        l.strip_prefix("ns")?.parse().ok()
    };
    Ok(match rr.rtype {
        wire::T_SOA => Some((wire::soa_serial(rr).ok_or("short SOA")? as usize).wrapping_sub(100)),
        wire::T_MX => Some(u16::from_be_bytes([rr.rdata[0], rr.rdata[1]]) as usize),
        wire::T_A if rr.rdata.len() == 4 => Some(rr.rdata[2] as usize),
        wire::T_AAAA if rr.rdata.len() == 16 => Some(rr.rdata[14] as usize),
        wire::T_TXT => {
            let s = wire::txt_strings(rr);
            let t = String::from_utf8_lossy(s.first().ok_or("empty TXT")?).to_string();
            Some(t.strip_prefix("g=").and_then(|x| x.parse().ok()).ok_or(format!("bad TXT {t}"))?)
        }
        wire::T_NS => {
            let names = wire::rdata_names(msg, rr).map_err(|e| format!("{e:?}"))?;
            Some(from_ns_name(&names[0]).ok_or("bad NS target")?)
        }
        wire::T_CNAME => {
            let names = wire::rdata_names(msg, rr).map_err(|e| format!("{e:?}"))?;
            let l = names[0].first().and_then(|l| std::str::from_utf8(l).ok()).ok_or("bad CNAME target")?;
            Some(l.strip_prefix('t').and_then(|x| x.parse().ok()).ok_or("bad CNAME target label")?)
        }
        _ => None,
    })
}

struct Swap {
    g: usize,
    invoked: u64,
    returned: u64,
}

impl Prop for C32 {
    const ID: &'static str = "C32";
    type Scn = Scn;
    fn runs(tier: Tier) -> u64 {
        match tier {
            Tier::Quick => 300_000,
            Tier::Thorough => 20_000_000,
        }
    }
    fn gen(r: &mut SplitMix, _t: Tier, _i: u64) -> Scn {
        let generations = range(r, 1, 4) as usize;
        let query_tasks = range(r, 2, 4) as usize;
        let queries_per_task = range(r, 1, 5) as usize;
        let plan = (0..query_tasks)
            .map(|_| {
                (0..queries_per_task)
                    .map(|_| {
                        // sign with a generation in which the key exists
                        let mut signed = if r.below(2) == 0 { range(r, 0, generations as u64) as i32 } else { -1 };
                        if signed == 3 {
                            signed = 2;
                        }
                        // a quarter of the signed requests carry a stale time: the BADTIME response must be
                        // signed with the key that authenticated the request
                        let stale = if signed >= 0 && r.below(4) == 0 { 8 } else { 0 };
                        (r.below(7) as u8 + stale, r.below(4) == 0, signed)
                    })
                    .collect()
            })
            .collect();
        Scn {
            generations,
            query_tasks,
            queries_per_task,
            strategy: pick(r, &["random", "random", "pct:2", "pct:3", "pct:6"]).to_string(),
            plan,
            keys_first: r.below(2) == 0,
        }
    }
    fn plan(r: &mut SplitMix, scn: &Scn) -> ExecPlan {
        ExecPlan {
            seed: r.next(),
            strategy: crate::parse_strategy(&scn.strategy, (scn.query_tasks * scn.queries_per_task * 6 + scn.generations * 6) as u32),
            clock: ClockPolicy::Des,
            max_steps: 100_000,
        }
    }
    fn run(scn: &Scn) {
        run(scn)
    }
    fn shrink(s: &Scn) -> Vec<Scn> {
        let mut out = vec![];
        if s.query_tasks > 1 {
            let mut c = s.clone();
            c.query_tasks -= 1;
            c.plan.pop();
            out.push(c);
        }
        if s.queries_per_task > 1 {
            let mut c = s.clone();
            c.queries_per_task -= 1;
            for p in c.plan.iter_mut() {
                p.pop();
            }
            out.push(c);
        }
        if s.generations > 1 {
            let mut c = s.clone();
            c.generations -= 1;
            for p in c.plan.iter_mut().flatten() {
                if p.2 > c.generations as i32 {
                    p.2 = c.generations as i32;
                }
            }
            out.push(c);
        }
        for i in 0..s.plan.len() {
            for j in 0..s.plan[i].len() {
                if s.plan[i][j].2 >= 0 {
                    let mut c = s.clone();
                    c.plan[i][j].2 = -1;
                    out.push(c);
                }
            }
        }
        out
    }
    fn rule() -> String {
        "one execution = a swapper thread installing catalog and key-set generations 1..G (G<=4) while 2-4 query threads issue 1-5 requests each (MX/NS-referral/NXDOMAIN/SOA/TXT/wildcard/CNAME into a sibling zone of the same catalog, UDP or TCP, unsigned or TSIG-signed with a chosen key generation) under one seeded schedule (random / PCT 2-6). Every record of generation g carries g (SOA serial, MX preference, A/AAAA octet, NS and CNAME target label, TXT). Non-trivial = at least one preemption; distinct = distinct (scenario, schedule) hash".into()
    }
    fn assumptions() -> Vec<String> {
        vec!["catalog and key generations need not match each other (the statement promises one snapshot *of each*)".into(), "freshness is judged by global event sequence numbers taken immediately before/after each call".into()]
    }
    fn real_components() -> Vec<&'static str> {
        vec!["src/server/mod.rs (RwLock<Arc<_>> snapshots, TSIG verification/signing path)", "src/server/query.rs", "src/message/{reader,writer,tsig}.rs", "src/db"]
    }
    fn stub_components() -> Vec<&'static str> {
        vec!["OS threads -> shuttle coroutines", "std::sync::RwLock -> simrt::sync::RwLock", "SystemTime::now -> simulated wall clock"]
    }
    fn engine() -> &'static str {
        "E1 simrt-threads"
    }
    fn expected_probes() -> Vec<&'static str> {
        vec!["c32_response_during_swap_window", "c32_signed_ok", "c32_signed_badsig", "c32_signed_badkey", "c32_signed_badtime", "c32_old_generation_served_in_window"]
    }
}

fn run(scn: &Scn) {
    simrt::start(world_cfg(7, FaultCfg::none()));
    let server = Arc::new(Server::new(catalog(0)));
    server.set_tsig_keys(keys(0));
    let cat_swaps: Arc<std::sync::Mutex<Vec<Swap>>> = Arc::new(std::sync::Mutex::new(vec![Swap { g: 0, invoked: 0, returned: 0 }]));
    let key_swaps: Arc<std::sync::Mutex<Vec<Swap>>> = Arc::new(std::sync::Mutex::new(vec![Swap { g: 0, invoked: 0, returned: 0 }]));
    let cats: Vec<_> = (0..=scn.generations).map(catalog).collect();

    let swapper = {
        let (server, cat_swaps, key_swaps, n, keys_first) = (server.clone(), cat_swaps.clone(), key_swaps.clone(), scn.generations, scn.keys_first);
        shuttle::thread::spawn(move || {
            for g in 1..=n {
                let do_keys = |g: usize| {
                    let k = keys(g);
                    let i = simrt::stamp();
                    key_swaps.lock().unwrap().push(Swap { g, invoked: i, returned: u64::MAX });
                    server.set_tsig_keys(k);
                    let r = simrt::stamp();
                    key_swaps.lock().unwrap().last_mut().unwrap().returned = r;
                };
                if keys_first {
                    do_keys(g);
                }
                let c = cats[g].clone();
                let i = simrt::stamp();
                cat_swaps.lock().unwrap().push(Swap { g, invoked: i, returned: u64::MAX });
                server.set_catalog(c);
                let r = simrt::stamp();
                cat_swaps.lock().unwrap().last_mut().unwrap().returned = r;
                if !keys_first {
                    do_keys(g);
                }
            }
        })
    };
    let mut hs = vec![];
    for (t, plan) in scn.plan.iter().enumerate() {
        let (server, cat_swaps, key_swaps, plan) = (server.clone(), cat_swaps.clone(), key_swaps.clone(), plan.clone());
        hs.push(shuttle::thread::spawn(move || {
            let mut buf = vec![0u8; 65535];
            for (i, (kind, tcp, signed)) in plan.iter().enumerate() {
                let stale = kind & 8 != 0;
                let (qn, qt) = match kind & 7 {
                    0 => ("gen.test.", wire::T_MX),
                    1 => ("deep.sub.gen.test.", wire::T_A),
                    2 => ("nosuch.gen.test.", wire::T_TXT),
                    3 => ("gen.test.", wire::T_SOA),
                    4 => ("txt.gen.test.", wire::T_TXT),
                    5 => ("x.w.gen.test.", wire::T_TXT),
                    _ => ("cross.gen.test.", wire::T_TXT),
                };
                let mut msg = wire::query((t * 100 + i) as u16, qn, qt);
                let mut req_mac = vec![];
                let sign_alg = if *signed >= 0 { key_alg(*signed as usize).unwrap_or(Alg::Sha256) } else { Alg::Sha256 };
                if *signed >= 0 {
                    let spec = SignSpec {
                        key_name: wire::name("k."),
                        alg: sign_alg,
                        alg_name: sign_alg.name(),
                        secret: secret(*signed as usize),
                        time: simrt::time::wall_secs() - if stale { 100_000 } else { 0 },
                        fudge: 300,
                        mac_len: None,
                    };
                    let (m, mac) = tsigref::sign_request(&msg, &spec);
                    msg = m;
                    req_mac = mac;
                }
                let transport = if *tcp { Transport::Tcp } else { Transport::Udp };
                let invoked = simrt::stamp();
                let n = qz::ask_buf(&server, &msg, IpAddr::V4(Ipv4Addr::new(192, 0, 2, 1 + t as u8)), transport, &mut buf);
                let returned = simrt::stamp();
                let Some(n) = n else {
                    viol("no-response", format!("task {t} query {i} got no response"));
                    return;
                };
                let resp = &buf[..n];
                let m = match wire::decode(resp) {
                    Ok(m) => m,
                    Err(e) => {
                        viol("undecodable-response", format!("{e:?}"));
                        return;
                    }
                };
                // window of generations that may legally have been observed
                let window = |swaps: &std::sync::Mutex<Vec<Swap>>| -> (usize, usize) {
                    let s = swaps.lock().unwrap();
                    let lo = s.iter().filter(|x| x.returned < invoked).map(|x| x.g).max().unwrap_or(0);
                    let hi = s.iter().filter(|x| x.invoked < returned).map(|x| x.g).max().unwrap_or(0);
                    (lo, hi)
                };
                let (clo, chi) = window(&cat_swaps);
                let (klo, khi) = window(&key_swaps);
                if chi > clo {
                    simrt::probe("c32_response_during_swap_window");
                }
                if *signed >= 0 {
                    let j = *signed as usize;
                    let tsig = m.tsig().and_then(|r| tsigref::parse_rdata(&r.rdata));
                    let Some(tf) = tsig else {
                        viol("signed-request-unsigned-response", format!("task {t} query {i}: response to a signed request carries no TSIG"));
                        return;
                    };
                    // what each key generation h in the window would make of this request
                    let outcome = |h: usize| -> &'static str {
                        match key_alg(h) {
                            None => "badkey",
                            Some(a) if a != sign_alg => "badkey",
                            Some(_) if h != j => "badsig",
                            Some(_) if stale => "badtime",
                            Some(_) => "ok",
                        }
                    };
                    let observed = if m.rcode() == 9 && tf.error == 17 {
                        "badkey"
                    } else if m.rcode() == 9 && tf.error == 16 {
                        "badsig"
                    } else if m.rcode() == 9 && tf.error == 18 {
                        "badtime"
                    } else if tf.error == 0 {
                        "ok"
                    } else {
                        viol("unexpected-tsig-error", format!("task {t} query {i}: TSIG error {} rcode {}", tf.error, m.rcode()));
                        return;
                    };
                    if !(klo..=khi).any(|h| outcome(h) == observed) {
                        viol(
                            "tsig-outcome-explained-by-no-key-generation",
                            format!("task {t} query {i}: request signed with generation {j} ({sign_alg:?}) got '{observed}', but key generations in the window [{klo},{khi}] give {:?}", (klo..=khi).map(outcome).collect::<Vec<_>>()),
                        );
                        return;
                    }
                    if observed == "badtime" {
                        // signed with the very key that verified the request
                        if let Err(e) = tsigref::verify_response(resp, &req_mac, sign_alg, &secret(j)) {
                            viol("mixed-key-snapshots", format!("task {t} query {i}: BADTIME response to a request authenticated under key generation {j} does not verify under that key: {e}"));
                            return;
                        }
                        if !m.answers.is_empty() || !m.authority.is_empty() {
                            viol("answer-data-with-tsig-error", "BADTIME response carries answer data".into());
                            return;
                        }
                        simrt::probe("c32_signed_badtime");
                        continue;
                    }
                    if observed != "ok" {
                        if !tf.mac.is_empty() {
                            viol("tsig-error-with-mac", format!("{observed} response carries a MAC"));
                            return;
                        }
                        if !m.answers.is_empty() || !m.authority.is_empty() {
                            viol("answer-data-with-tsig-error", format!("{observed} response carries answer data"));
                            return;
                        }
                        simrt::probe(if observed == "badsig" { "c32_signed_badsig" } else { "c32_signed_badkey" });
                        continue;
                    }
                    // accepted: the response must be signed with the very secret that authenticated it
                    if let Err(e) = tsigref::verify_response(resp, &req_mac, sign_alg, &secret(j)) {
                        viol("mixed-key-snapshots", format!("task {t} query {i}: request accepted under key generation {j} but the response MAC does not verify under it: {e}"));
                        return;
                    }
                    simrt::probe("c32_signed_ok");
                }
                // all markers equal, and fresh
                let mut seen: Option<usize> = None;
                for rr in m.all_rrs() {
                    match marker(resp, rr) {
                        Ok(Some(g)) => {
                            if let Some(s) = seen {
                                if s != g {
                                    viol("mixed-catalog-snapshots", format!("task {t} query {i} ({qn}): records of generations {s} and {g} in one response"));
                                    return;
                                }
                            }
                            seen = Some(g);
                        }
                        Ok(None) => {}
                        Err(e) => {
                            viol("unreadable-marker", e);
                            return;
                        }
                    }
                }
                let Some(g) = seen else {
                    viol("no-marker", format!("task {t} query {i} ({qn} type {qt}): response rcode {} carries no generation marker", m.rcode()));
                    return;
                };
                if g < clo {
                    viol("stale-catalog-after-swap-returned", format!("task {t} query {i}: answered from generation {g}, but set_catalog({clo}) had returned before the request was handed in"));
                    return;
                }
                if g > chi {
                    viol("catalog-from-the-future", format!("task {t} query {i}: generation {g} but latest set_catalog invoked was {chi}"));
                    return;
                }
                if g < chi {
                    simrt::probe("c32_old_generation_served_in_window");
                }
            }
        }));
    }
    let _ = swapper.join();
    for h in hs {
        let _ = h.join();
    }
    simrt::finish();
}
