//! C26 – response rate limiting follows its token-bucket rule over time.
//!
//! Real code: `Rrl::process_response` behind `Server::handle_message`, reading
//! the simulated monotonic clock. One response stream per limiter; the clock is
//! advanced by exactly the generated gap between consecutive requests.
use crate::driver::{world_cfg, Prop, Tier};
use crate::qz;
use crate::util::{chance, pick, range, viol, SplitMix};
use crate::wire;
use quandary::server::{RrlParams, Server, Transport};
use quandary_simrt as simrt;
use serde::{Deserialize, Serialize};
use simrt::sched::{ClockPolicy, ExecPlan, ExecRecord, Strategy};
use simrt::FaultCfg;
use std::net::{IpAddr, Ipv4Addr};
use std::time::Duration;

#[derive(Clone, Debug, Serialize, Deserialize)]
pub struct Scn {
    pub rates: [u32; 3],
    pub window: u32,
    pub slip: usize,
    /// 0 noerror, 1 nxdomain, 2 error
    pub category: usize,
    /// nanoseconds between consecutive requests (first entry: before the first request)
    pub gaps_ns: Vec<u64>,
    pub hash_key: u64,
    pub table_size: usize,
    /// requests carry an OPT record (a slipped response must keep its OPT and nothing else)
    #[serde(default)]
    pub edns: bool,
    /// shared-slot mode (table size 1): the stream each request belongs to (index into STREAMS);
    /// a request of another stream takes the slot over, as documented (count 1, refill time now).
    /// Empty = one stream throughout (the one of `category`).
    #[serde(default)]
    pub streams: Vec<u8>,
    /// single-stream NOERROR histories: 0 = A at www (answer only), 1 = a referral with glue
    /// (authority + additional), 2 = MX at the apex (answer + additional address)
    #[serde(default)]
    pub qvar: u8,
    /// every request is TSIG-signed: full and slipped responses alike must carry a verifying TSIG RR
    #[serde(default)]
    pub signed: bool,
}
pub struct C26;

/// (QNAME, category): two NOERROR streams (different names), the NXDOMAIN stream, the error stream.
const STREAMS: [(&str, usize); 4] = [("www.example.", 0), ("mail.example.", 0), ("nosuch.example.", 1), ("www.elsewhere.", 2)];

const S: u64 = 1_000_000_000;

/// Largest gap the property quantifies over (10^9 s, about 31.7 years).
const MAX_GAP_S: u64 = 1_000_000_000;

fn gen_gap(r: &mut SplitMix, rate: u32, window: u32, big_left: &mut u32) -> u64 {
    gen_gap_raw(r, rate, window, big_left).min(MAX_GAP_S * S)
}
fn gen_gap_raw(r: &mut SplitMix, rate: u32, window: u32, big_left: &mut u32) -> u64 {
    let w = window as u64;
    match r.below(20) {
        0..=4 => 0,
        5..=6 => 1 + r.below(S - 1),
        7 => S - 1,
        8 => S,
        9 => S + 1,
        10..=11 => range(r, 1, 10) * S,
        12 => w * S,
        13 => (w + 1) * S,
        14 => w.saturating_sub(1).max(1) * S - r.below(2),
        15 => range(r, 1, 10) * S + r.below(S),
        16 => range(r, 3600, 200_000) * S + r.below(S),
        _ => {
            if *big_left == 0 {
                return range(r, 1, 5) * S;
            }
            *big_left -= 1;
            match r.below(3) {
                0 => range(r, 1_000_000, 1_000_000_000) * S + r.below(S),
                // idle periods around the point where rate * seconds leaves 32 bits
                1 => ((1u64 << 32) / rate as u64 + r.below(3)).saturating_sub(1).max(1) * S + r.below(2) * (S - 1),
                _ => (((1u64 << 32) + rate as u64 - 1) / rate as u64 + range(r, 0, 100_000)) * S,
            }
        }
    }
}

impl Prop for C26 {
    const ID: &'static str = "C26";
    type Scn = Scn;
    fn runs(tier: Tier) -> u64 {
        match tier {
            Tier::Quick => 1_000_000,
            Tier::Thorough => 60_000_000,
        }
    }
    fn gen(r: &mut SplitMix, _t: Tier, _i: u64) -> Scn {
        let window = if chance(r, 70) { range(r, 1, 5) as u32 } else { range(r, 6, 60) as u32 };
        let mut rate = |r: &mut SplitMix| -> u32 {
            match r.below(10) {
                0..=5 => range(r, 1, 10) as u32,
                6..=7 => range(r, 11, 1000) as u32,
                8 => range(r, 1001, 100_000) as u32,
                _ => ((1u64 << 31) / window as u64 - r.below(1000)) as u32,
            }
        };
        let rates = [rate(r), rate(r), rate(r)];
        let category = r.below(3) as usize;
        let n = range(r, 5, 60) as usize;
        let mut big_left = 3u32;
        let mut rates = rates;
        let mut window = window;
        let mut gaps_ns: Vec<u64> = (0..n).map(|_| gen_gap(r, rates[category], window, &mut big_left)).collect();
        if chance(r, 8) {
            // template: fill the bucket, stay idle for about k * 2^32 / rate seconds (where a 32-bit
            // rate * seconds product wraps to a small value), then fill it again
            let rate = range(r, 5, 24) as u32;
            rates[category] = rate;
            window = range(r, 1, 2) as u32;
            for x in rates.iter_mut() {
                // rate x window must stay inside u32 for every category (RrlParams::new checks it)
                *x = (*x).min(((1u64 << 31) / window as u64) as u32);
            }
            let cap = (rate * window) as usize;
            let k = range(r, 1, (MAX_GAP_S * rate as u64) >> 32);
            let idle_s = ((k << 32) + rate as u64 - 1) / rate as u64 + r.below(3);
            gaps_ns = vec![0; cap + range(r, 0, 3) as usize];
            gaps_ns.push(idle_s.min(MAX_GAP_S) * S + r.below(2) * r.below(S));
            gaps_ns.extend(vec![0; cap + range(r, 1, 3) as usize]);
        }
        if chance(r, 3) {
            // parameters the public API must refuse: rate x window does not fit 32 bits for the
            // category under test only (were they accepted, the limit would wrap to a small number)
            let w = *pick(r, &[65_536u32, 0x5555_5556, 1 << 31, 70_000]);
            window = w;
            for (k, x) in rates.iter_mut().enumerate() {
                *x = if k == category { (((1u64 << 32) / w as u64) as u32).saturating_add(range(r, 1, 3) as u32).max(2) } else { range(r, 1, 3) as u32 };
            }
            gaps_ns = (0..range(r, 3, 12)).map(|_| *pick(r, &[0u64, 0, 1_000_000, S])).collect();
        }
        let mut table_size = *pick(r, &[1usize, 3, 64]);
        let mut streams = vec![];
        if chance(r, 20) {
            // several streams taking turns in the single slot of a size-1 table
            table_size = 1;
            let pool: Vec<u8> = {
                let mut p = vec![[0u8, 2, 3][category]];
                while p.len() < range(r, 2, 3) as usize {
                    let c = r.below(4) as u8;
                    if !p.contains(&c) {
                        p.push(c);
                    }
                }
                p
            };
            let mut cur = pool[0];
            for _ in 0..gaps_ns.len() {
                if chance(r, 25) {
                    cur = *pick(r, &pool);
                }
                streams.push(cur);
            }
        }
        Scn { rates, window, slip: *pick(r, &[0usize, 0, 1, 1, 2, 7]), category, gaps_ns, hash_key: r.next(), table_size, edns: chance(r, 30), qvar: if streams.is_empty() && category == 0 && chance(r, 30) { 1 + r.below(2) as u8 } else { 0 }, signed: chance(r, 15), streams }
    }
    fn plan(r: &mut SplitMix, _scn: &Scn) -> ExecPlan {
        ExecPlan { seed: r.next(), strategy: Strategy::Random, clock: ClockPolicy::Des, max_steps: 200_000 }
    }
    fn run(scn: &Scn) {
        run(scn)
    }
    fn shrink(s: &Scn) -> Vec<Scn> {
        let mut out = vec![];
        // drop a suffix, then single steps, then simplify gaps
        if s.gaps_ns.len() > 1 {
            let mut c = s.clone();
            c.gaps_ns.truncate(s.gaps_ns.len() / 2);
            c.streams.truncate(c.gaps_ns.len());
            out.push(c);
            let mut c = s.clone();
            c.gaps_ns.pop();
            c.streams.truncate(c.gaps_ns.len());
            out.push(c);
        }
        for i in 0..s.gaps_ns.len().min(24) {
            if s.gaps_ns.len() > 1 {
                let mut c = s.clone();
                c.gaps_ns.remove(i);
                if i < c.streams.len() {
                    c.streams.remove(i);
                }
                out.push(c);
            }
        }
        for i in 0..s.gaps_ns.len().min(24) {
            if s.gaps_ns[i] % S != 0 {
                let mut c = s.clone();
                c.gaps_ns[i] -= s.gaps_ns[i] % S;
                out.push(c);
            }
        }
        if s.table_size != 1 {
            let mut c = s.clone();
            c.table_size = 1;
            out.push(c);
        }
        if !s.streams.is_empty() && s.streams.iter().all(|x| *x == s.streams[0]) {
            let mut c = s.clone();
            c.category = STREAMS[s.streams[0] as usize].1;
            c.streams.clear();
            out.push(c);
        }
        if s.slip != 0 {
            let mut c = s.clone();
            c.slip = 0;
            out.push(c);
        }
        if s.signed {
            out.push(Scn { signed: false, ..s.clone() });
        }
        if s.qvar != 0 {
            out.push(Scn { qvar: 0, ..s.clone() });
        }
        out
    }
    fn nontrivial(s: &Scn, _rec: &ExecRecord) -> bool {
        // a history is non-trivial if it contains at least one refill-relevant gap (>= 1 s)
        s.gaps_ns.iter().skip(1).any(|g| *g >= S)
    }
    fn case_hash(s: &Scn, _rec: &ExecRecord) -> u64 {
        let mut h = 0xcbf29ce484222325u64;
        for b in serde_json::to_string(s).unwrap_or_default().bytes() {
            h = (h ^ b as u64).wrapping_mul(0x100000001b3);
        }
        h
    }
    fn rule() -> String {
        "one execution = one request-time history of 5-60 UDP queries of a single response stream (NOERROR / NXDOMAIN / REFUSED category, each with its own rate), gaps drawn from {0, sub-second, 1s-1ns, 1s, 1s+1ns, k s, window, window+-1, hours, 10^6..10^9 s, around 2^32/rate s}; rates 1..2^31/window, window 1..60, slip {0,1,2,7}; the simulated clock advances by exactly the gap; every step is compared with a u128 reference bucket; the limited question is an address answer, a referral with glue or an MX answer with additional data, and in a seventh of the histories every request is TSIG-signed (full and slipped responses must then carry a verifying TSIG RR). In a fifth of the histories 2-3 streams (two NOERROR names, NXDOMAIN, REFUSED; each category with its own rate) take turns in the single slot of a size-1 table and the reference models the documented take-over. Non-trivial = history contains a gap >= 1 s after the first request; distinct = distinct scenario".into()
    }
    fn assumptions() -> Vec<String> {
        vec![
            "one stream per limiter so that documented table-collision eviction cannot occur - or, in shared-slot mode (a fifth of the histories), a table of size 1 in which every stream uses the one slot, so that every take-over is predictable and is modelled (count 1, refill time now)".into(),
            "with slip >= 2 a limited response may be slipped or dropped (random by design); only 'not sent in full' is checked".into(),
            "total simulated time per history stays below the range of the simulated Instant (u64 nanoseconds)".into(),
        ]
    }
    fn real_components() -> Vec<&'static str> {
        vec!["src/server/rrl.rs", "src/server/mod.rs + query.rs", "src/db", "src/message"]
    }
    fn stub_components() -> Vec<&'static str> {
        vec!["Instant::now -> simulated monotonic clock (advanced by the harness)", "RandomState, thread_rng -> deterministic", "Mutex -> simrt (single task: never contended)"]
    }
    fn engine() -> &'static str {
        "E3 simrt-sequential"
    }
    fn expected_probes() -> Vec<&'static str> {
        vec!["c26_limited", "c26_refill_partial", "c26_refill_to_empty", "c26_gap_over_2pow32_div_rate", "c26_subsecond_carry", "c26_slot_taken_over", "c26_overflowing_parameters_refused", "c26_slipped_response_signed", "c26_full_response_signed"]
    }
}

fn run(scn: &Scn) {
    simrt::start(world_cfg(scn.hash_key, FaultCfg::none()));
    // catalog: example. loaded (NOERROR/NXDOMAIN); anything else REFUSED
    let mut server = Server::new(qz::catalog_of(vec![qz::example_zone(1)]));
    let fits = scn.rates.iter().all(|x| (*x as u64) * (scn.window as u64) <= u32::MAX as u64);
    let mut p = match RrlParams::new(scn.rates[0], scn.rates[1], scn.rates[2], scn.window) {
        Ok(p) => p,
        Err(_) if !fits => {
            // refused, as it must be: a bucket of more than 2^32 - 1 tokens cannot be configured
            simrt::probe("c26_overflowing_parameters_refused");
            simrt::finish();
            return;
        }
        Err(e) => panic!("harness: RrlParams::new refused parameters that fit: {e:?}"),
    };
    if !fits {
        // accepted although rate x window does not fit: the history below is judged against the
        // true bucket (u128 arithmetic), which such a limiter cannot follow
        simrt::probe("c26_overflowing_parameters_accepted");
    }
    p.set_slip(scn.slip);
    p.set_size(scn.table_size).expect("size");
    server.set_rrl_params(Some(p));
    let secret: Vec<u8> = (0..32u8).map(|b| b.wrapping_mul(7) ^ 0x5a).collect();
    if scn.signed {
        let mut map = quandary::server::TsigKeyMap::new();
        map.insert(qz::qname("k.example."), (quandary::message::tsig::Algorithm::HmacSha256, secret.clone().into_boxed_slice()));
        server.set_tsig_keys(std::sync::Arc::new(map));
    }
    let src = IpAddr::V4(Ipv4Addr::new(198, 51, 100, 7));
    let mut buf = vec![0u8; 2048];

    // reference: the slot's owner stream, tokens used, last refill instant
    let (mut owner, mut used, mut last): (Option<u8>, u128, u128) = (None, 0, 0);
    let mut t: u128 = simrt::now_ns() as u128;
    let (mut rate, mut cap) = (0u128, 0u128);
    for (i, gap) in scn.gaps_ns.iter().enumerate() {
        if *gap > 0 {
            simrt::advance(Duration::from_nanos(*gap));
        }
        t += *gap as u128;
        if simrt::now_ns() as u128 != t {
            panic!("harness: simulated clock out of step");
        }
        let stream = scn.streams.get(i).copied().unwrap_or([0u8, 2, 3][scn.category]);
        let (qn, cat) = STREAMS[stream as usize];
        let expect_send = if owner != Some(stream) {
            // first response of the stream in this slot (or documented take-over of the slot)
            if owner.is_some() {
                simrt::probe("c26_slot_taken_over");
            }
            owner = Some(stream);
            rate = scn.rates[cat] as u128;
            cap = rate * scn.window as u128;
            used = 1;
            last = t;
            true
        } else {
            let e = t - last;
            if e >= S as u128 {
                let s = e / S as u128;
                if rate * s >= 1 << 32 {
                    simrt::probe("c26_gap_over_2pow32_div_rate");
                }
                let before = used;
                used = used.saturating_sub(rate * s);
                last += s * S as u128;
                if used == 0 && before > 0 {
                    simrt::probe("c26_refill_to_empty");
                } else if used < before {
                    simrt::probe("c26_refill_partial");
                }
                if e % S as u128 != 0 {
                    simrt::probe("c26_subsecond_carry");
                }
            }
            if used >= cap {
                false
            } else {
                used += 1;
                true
            }
        };
        let (qn, qt) = match (stream, scn.qvar) {
            (0, 1) => ("deep.sub.example.", wire::T_A),
            (0, 2) => ("example.", wire::T_MX),
            _ => (qn, wire::T_A),
        };
        let mut msg = wire::query_full(i as u16, &wire::name(qn), qt, wire::C_IN, 0, if scn.edns { Some(1232) } else { None });
        let mut req_mac = vec![];
        if scn.signed {
            let spec = crate::tsigref::SignSpec { key_name: wire::name("k.example."), alg: crate::tsigref::Alg::Sha256, alg_name: crate::tsigref::Alg::Sha256.name(), secret: secret.clone(), time: simrt::time::wall_secs(), fudge: 300, mac_len: None };
            (msg, req_mac) = crate::tsigref::sign_request(&msg, &spec);
        }
        let got = qz::ask_buf(&server, &msg, src, Transport::Udp, &mut buf);
        if let (true, Some(n)) = (scn.signed, got) {
            // signed requests: whatever the limiter decides, a response that is sent is signed
            let resp = buf[..n].to_vec();
            let tc = wire::decode(&resp).map(|m| m.tc()).unwrap_or(false);
            if let Err(e) = crate::tsigref::verify_response(&resp, &req_mac, crate::tsigref::Alg::Sha256, &secret) {
                viol(if tc { "slipped-response-lost-its-tsig" } else { "signed-request-unsigned-response" }, format!("step {i}: the request was correctly signed; the response's TSIG does not verify: {e}"));
                break;
            }
            simrt::probe(if tc { "c26_slipped_response_signed" } else { "c26_full_response_signed" });
        }
        // classify
        let (full, slipped) = match got {
            None => (false, false),
            Some(n) => match wire::decode(&buf[..n]) {
                Ok(m) => {
                    if m.tc() && scn.edns && m.opt().is_none() {
                        viol("slipped-response-lost-its-opt", format!("step {i}: the request carried OPT, the slipped response does not"));
                        break;
                    }
                    if m.tc() {
                        if !m.answers.is_empty() || !m.authority.is_empty() || m.additional.iter().any(|r| r.rtype != wire::T_OPT && r.rtype != wire::T_TSIG) {
                            viol("slipped-response-carries-records", format!("step {i}"));
                            break;
                        }
                        (false, true)
                    } else {
                        (true, false)
                    }
                }
                Err(e) => {
                    viol("undecodable-response", format!("step {i}: {e:?}"));
                    break;
                }
            },
        };
        let detail = || format!("step {i} at t+{}ns (gap {}ns): rate {} window {} slip {} stream {} ({}); reference bucket used={} cap={}", t - simrt::MONO_BASE_NS as u128, gap, rate, scn.window, scn.slip, stream, qn, used, cap);
        if expect_send {
            if !full {
                viol("limited-although-bucket-has-tokens", detail());
                break;
            }
        } else {
            simrt::probe("c26_limited");
            if full {
                viol("sent-although-bucket-is-empty", detail());
                break;
            }
            if scn.slip == 0 && slipped {
                viol("slip0-slipped", detail());
                break;
            }
            if scn.slip == 1 && !slipped {
                viol("slip1-dropped", detail());
                break;
            }
        }
    }
    simrt::finish();
}
