//! C24 – the zone-file parser is total and only yields valid records.
//!
//! Real code: `zone_file::Parser<S: Read>` and its buffer refill
//! (`reader.rs:try_fill`), over a stream with injected read-side faults: short
//! reads, EINTR, EIO after k octets, torn files (EOF after k octets), media
//! bit flips. The unit tests only ever hand the parser a `Cursor`.
use crate::driver::{world_cfg, Prop, Tier};
use crate::util::{chance, pick, range, viol, SplitMix};
use quandary::class::Class;
use quandary::rr::Type;
use quandary::zone_file::{Error as ZfError, LineContent, Parser};
use quandary_simrt as simrt;
use serde::{Deserialize, Serialize};
use simrt::sched::{ClockPolicy, ExecPlan, ExecRecord, Strategy};
use simrt::stream::FaultyReader;
use simrt::{Fault, FaultCfg};

#[derive(Clone, Debug, Serialize, Deserialize)]
pub struct Plan {
    /// cyclic maximum read sizes (empty = unlimited)
    pub chunks: Vec<usize>,
    pub eio_at: Option<usize>,
    pub eintr_calls: Vec<usize>,
    pub eintr_forever_from: Option<usize>,
    /// the file ends after this many octets
    pub torn_at: Option<usize>,
    /// (offset, bit) flipped on the medium
    pub bitflips: Vec<(usize, u8)>,
}
#[derive(Clone, Debug, Serialize, Deserialize)]
pub struct Scn {
    /// hex of the file contents
    pub file_hex: String,
    pub kind: String,
    pub plans: Vec<Plan>,
}
pub struct C24;

fn gen_name(r: &mut SplitMix) -> String {
    pick(r, &["@", "www", "mail.sub", "abs.example.", "*", "*.wild", "a\\.b", "\\065bc", "x\\000y", "UPPER", "_srv._tcp", "1"]).to_string()
}
fn gen_valid(r: &mut SplitMix) -> Vec<u8> {
    let nl = if chance(r, 15) { "\r\n" } else { "\n" };
    let mut t = String::new();
    t.push_str(&format!("$ORIGIN example.{nl}$TTL {}{nl}", range(r, 1, 86400)));
    if chance(r, 70) {
        t.push_str(&format!("@ IN SOA ns hostmaster ({nl}  {} ; serial{nl}  3600{nl}  900 ; retry{nl}  86400 60 ){nl}", r.below(1 << 31)));
    }
    let n = range(r, 1, 14);
    for _ in 0..n {
        let owner = if chance(r, 20) { " ".to_string() } else { format!("{} ", gen_name(r)) };
        let tc = pick(r, &["", "IN ", "300 ", "IN 300 ", "300 IN ", "CLASS1 ", "CH "]);
        let rec = match r.below(22) {
            20 => {
                // generic-form spellings: hex in several groups, over parenthesised lines, with a
                // length that disagrees, an odd number of digits, data after a zero length, and
                // TYPE/CLASS numbers at and beyond 16 bits or with leading zeros
                pick(r, &[
                    "A \\# 4 0a00 0001", "A \\# 4 ( 0a\n 00 00\n 01 )", "A \\# 4 0a0000", "A \\# 4 0a000001ff", "A \\# 4 0a00000", "A \\# 0 00", "AAAA \\# 16 20010db8 00000000 00000000 00000001",
                    "TYPE65535 \\# 0", "TYPE65536 \\# 0", "TYPE00001 \\# 4 0a000001", "TYPE0 \\# 0", "TYPE1 \\# 3 0a0000", "TYPE16 \\# 2 0500", "TYPE6 \\# 5 0000000000",
                    "MX \\# 3 000a00", "MX \\# 2 000a", "SRV \\# 7 00010002000300", "SRV \\# 6 000100020003", "TXT \\# 0", "TXT \\# 1 05", "HINFO \\# 1 00", "NS \\# 1 00", "NS \\# 2 c000", "CNAME \\# 3 016100 ; comment",
                ]).to_string()
            }
            21 => {
                // TTL and class fields at their limits and in both orders
                let ttl = *pick(r, &["2147483647", "2147483648", "4294967295", "4294967296", "99999999999999999999", "0", "00000000060", "-1", "1h", "60s"]);
                let cl = *pick(r, &["IN", "CH", "HS", "CLASS1", "CLASS65535", "CLASS65536", "CLASS01", "CLASS254", "ANY", "NONE"]);
                // (the marker keeps the line free of a second TTL/class prefix)
                match r.below(3) {
                    0 => format!("\u{1}{ttl} {cl} A 192.0.2.1"),
                    1 => format!("\u{1}{cl} {ttl} A 192.0.2.1"),
                    _ => format!("\u{1}{ttl} TXT ttl-only"),
                }
            }
            16 => {
                // RFC 3597 generic form for a *known* type: mostly the wrong length or content
                let t = *pick(r, &["A", "AAAA", "NS", "MX", "SOA", "TXT", "SRV", "HINFO", "CNAME", "WKS", "MINFO", "PTR"]);
                let n = r.below(24) as usize;
                let hex: String = (0..n).map(|_| format!("{:02x}", r.below(256))).collect();
                format!("{t} \\# {n} {hex}")
            }
            17 => {
                // generic form that is valid for the type
                pick(r, &["A \\# 4 0a000001", "AAAA \\# 16 20010db8000000000000000000000001", "NS \\# 4 026e7300", "MX \\# 7 000a026d780000", "TXT \\# 3 026869"]).to_string()
            }
            18 => {
                // types that must never come out of a zone file, by mnemonic and by number
                pick(r, &["NULL \\# 2 abcd", "OPT \\# 0", "TSIG \\# 0", "TYPE10 \\# 1 00", "TYPE41 \\# 0", "TYPE250 \\# 0", "NULL", "OPT", "TSIG", "TYPE250"]).to_string()
            }
            19 => format!("TXT {}", "\"y\" ".repeat(range(r, 1, 40) as usize)),
            0 => format!("A 192.0.2.{}", r.below(256)),
            1 => format!("AAAA 2001:db8::{:x}", r.below(65536)),
            2 => format!("NS {}", gen_name(r)),
            3 => format!("CNAME {}", gen_name(r)),
            4 => format!("MX {} {}", r.below(65536), gen_name(r)),
            5 => format!("TXT \"hello {} world\" second \"with \\\" quote and \\065\"", r.below(99)),
            6 => format!("TXT {}", "x".repeat(range(r, 1, 255) as usize)),
            7 => format!("SRV {} {} {} {}", r.below(100), r.below(100), r.below(65536), gen_name(r)),
            8 => "HINFO \"PDP-11\" UNIX".to_string(),
            9 => format!("PTR {}", gen_name(r)),
            10 => format!("TYPE65280 \\# 4 0a0000{:02x}", r.below(256)),
            11 => "A \\# 4 c0000201".to_string(),
            12 => format!("TXT ( \"multi\"{nl}   \"line\" ; comment{nl} )"),
            13 => "MINFO rmail email".to_string(),
            14 => "WKS 192.0.2.1 6 25 80".to_string(),
            _ => format!("TYPE{} \\# 0", range(r, 256, 65000)),
        };
        let (tc, rec) = match rec.strip_prefix('\u{1}') {
            Some(x) => (&"", x.to_string()),
            None => (tc, rec),
        };
        if chance(r, 6) {
            t.push_str(&format!("$INCLUDE \"inc {}.zone\" sub.example.{nl}", r.below(9)));
        }
        if chance(r, 6) {
            t.push_str(&format!("$ORIGIN {}{nl}", pick(r, &["sub.example.", "other.", "rel"])));
        }
        if chance(r, 10) {
            t.push_str(&format!("; comment line{nl}{nl}"));
        }
        t.push_str(&format!("{owner}{tc}{rec}{nl}"));
    }
    if chance(r, 12) {
        // names around the 255-octet limit on the wire, made of a relative part and the origin in
        // force (or absolute), as owner and inside RDATA: the completed name is `total` octets
        // long on the wire, with total in 253..=258 - at most 255 is a name, more is an error
        let origin = *pick(r, &["example.", "o.", "a-rather-longer-origin.example.", "."]);
        let origin_wire = if origin == "." { 1 } else { origin.len() + 1 };
        let total = range(r, 253, 258) as usize;
        // relative labels: (1 + len) each
        let mut need = total - origin_wire;
        let mut labels: Vec<String> = vec![];
        while need > 0 {
            let take = if need > 64 { let t = range(r, 2, 64) as usize; if need - t == 1 { t - 1 } else { t } } else { need };
            // one label of `take` octets on the wire = take-1 characters; some written with escapes
            let chars = take - 1;
            if chars == 0 { break; }
            let mut l = String::new();
            for i in 0..chars {
                if i == 0 && chance(r, 10) { l.push_str("\\065"); } else if chance(r, 3) { l.push_str("\\."); } else { l.push('n'); }
            }
            labels.push(l);
            need -= take;
        }
        let rel = labels.join(".");
        let name = if origin == "." || chance(r, 25) { format!("{rel}.{}", if origin == "." { "" } else { origin }) } else { rel };
        if origin != "." {
            t.push_str(&format!("$ORIGIN {origin}{nl}"));
        }
        let line = match r.below(5) {
            0 => format!("{name} A 192.0.2.9"),
            1 => format!("limit NS {name}"),
            2 => format!("limit MX 5 {name}"),
            3 => format!("limit SOA {name} hostmaster 1 2 3 4 5"),
            _ => format!("limit SRV 1 2 3 {name}"),
        };
        t.push_str(&format!("{line}{nl}after-limit A 192.0.2.10{nl}"));
    }
    if chance(r, 10) {
        // no newline at the end of the file
        while t.ends_with('\n') || t.ends_with('\r') {
            t.pop();
        }
    }
    if chance(r, 4) {
        // a field around the buffer / field-size limits
        let n = *pick(r, &[16_383usize, 16_384, 16_385, 65_535, 65_536, 65_537]);
        t.push_str(&format!("{nl}{} TXT x{nl}", "l".repeat(n)));
    }
    if chance(r, 5) {
        // a very long *plain* field (TTL, preference, port, serial: integers take any number of
        // leading zeros) in the middle of the file: it starts somewhere inside the reader's buffer
        // and runs past its end, so the buffer has to be compacted and grown while the field is read
        let n = *pick(r, &[4_000usize, 8_193, 12_000, 16_380, 16_400, 20_000, 33_000, 65_530, 65_540]);
        let z = "0".repeat(n);
        let line = match r.below(4) {
            0 => format!("padded {z}300 IN A 192.0.2.7"),
            1 => format!("padded MX {z}10 mail"),
            2 => format!("padded WKS 192.0.2.1 TCP {z}25"),
            _ => format!("padded SRV 1 2 {z}53 target"),
        };
        // somewhere in the first lines (so that data precedes and follows it)
        let mut lines: Vec<&str> = t.split_inclusive('\n').collect();
        let at = if lines.len() > 2 { 2 + r.below(lines.len() as u64 - 2) as usize } else { lines.len() };
        let line = format!("{line}{nl}");
        lines.insert(at.min(lines.len()), &line);
        t = lines.concat();
    }
    t.into_bytes()
}
fn gen_soup(r: &mut SplitMix) -> Vec<u8> {
    let toks: &[&str] = &[
        "$ORIGIN", "$TTL", "$INCLUDE", "$BOGUS", "@", "IN", "CH", "CLASS255", "A", "AAAA", "NS", "MX", "TXT", "SOA", "SRV", "NULL", "OPT", "TSIG", "TYPE10", "TYPE41", "TYPE250",
        "\\#", "(", ")", ";", "\"", "\"a b\"", "\\", "\\0", "\\256", "\\1234", "192.0.2.1", "::1", "300", "99999999999", "4", "0a000001", "0a0000", "zz", "example.", ".", "..", "a..b",
        "*", "-1", "1h", "\t", " ", "\n", "\r\n", "\r", "\0", "\u{80}",
    ];
    let n = range(r, 1, 40);
    let mut v = vec![];
    for _ in 0..n {
        v.extend(pick(r, toks).as_bytes());
        v.extend(pick(r, &[" ", " ", "\t", "\n", ""]).as_bytes());
    }
    v
}
fn mutate(r: &mut SplitMix, mut v: Vec<u8>) -> Vec<u8> {
    let n = range(r, 1, 4);
    for _ in 0..n {
        if v.is_empty() {
            break;
        }
        let i = r.below(v.len() as u64) as usize;
        match r.below(5) {
            0 => v[i] ^= 1 << r.below(8),
            1 => {
                v.remove(i);
            }
            2 => v.insert(i, *pick(r, b"()\";\\\n \t$@.\x00\xff0")),
            3 => v.truncate(i),
            _ => v[i] = r.next() as u8,
        }
    }
    v
}

fn gen_plan(r: &mut SplitMix, len: usize) -> Plan {
    let mut p = Plan { chunks: vec![], eio_at: None, eintr_calls: vec![], eintr_forever_from: None, torn_at: None, bitflips: vec![] };
    match r.below(9) {
        0 | 1 | 2 => p.chunks = (0..range(r, 1, 3)).map(|_| *pick(r, &[1usize, 1, 2, 3, 7, 64, 4096, 16_383, 16_384, 16_385])).collect(),
        3 => p.eio_at = Some(r.below(len as u64 + 1) as usize),
        4 => {
            p.eintr_calls = (0..range(r, 1, 3)).map(|_| r.below(8) as usize).collect();
            if chance(r, 50) {
                p.chunks = vec![*pick(r, &[1usize, 5, 100])];
            }
        }
        5 => p.eintr_forever_from = Some(r.below(4) as usize),
        6 => p.torn_at = Some(r.below(len as u64 + 1) as usize),
        7 => p.bitflips = (0..range(r, 1, 2)).map(|_| (r.below(len.max(1) as u64) as usize, r.below(8) as u8)).collect(),
        _ => {
            p.chunks = vec![*pick(r, &[1usize, 3, 17])];
            p.eio_at = Some(r.below(len as u64 + 1) as usize);
        }
    }
    p
}

impl Prop for C24 {
    const ID: &'static str = "C24";
    type Scn = Scn;
    fn runs(tier: Tier) -> u64 {
        match tier {
            Tier::Quick => 200_000,
            Tier::Thorough => 20_000_000,
        }
    }
    fn gen(r: &mut SplitMix, _t: Tier, _i: u64) -> Scn {
        let (kind, file) = match r.below(10) {
            0..=4 => ("valid", gen_valid(r)),
            5..=6 => ("soup", gen_soup(r)),
            _ => {
                let v = gen_valid(r);
                ("mutated", mutate(r, v))
            }
        };
        let mut plans: Vec<Plan> = (0..range(r, 3, 8)).map(|_| gen_plan(r, file.len())).collect();
        if file.len() <= 160 && chance(r, 30) {
            // small files: *every* cut point
            plans = (0..=file.len()).map(|k| Plan { chunks: vec![], eio_at: if k % 2 == 0 { Some(k) } else { None }, eintr_calls: vec![], eintr_forever_from: None, torn_at: if k % 2 == 1 { Some(k) } else { None }, bitflips: vec![] }).collect();
        }
        Scn { file_hex: crate::util::hex(&file), kind: kind.to_string(), plans }
    }
    fn plan(r: &mut SplitMix, _s: &Scn) -> ExecPlan {
        ExecPlan { seed: r.next(), strategy: Strategy::Random, clock: ClockPolicy::Des, max_steps: 100_000 }
    }
    fn run(scn: &Scn) {
        run(scn)
    }
    fn stack_size() -> usize {
        2 << 20
    }
    fn shrink(s: &Scn) -> Vec<Scn> {
        let mut out = vec![];
        for i in 0..s.plans.len() {
            if s.plans.len() > 1 {
                let c = Scn { plans: vec![s.plans[i].clone()], ..s.clone() };
                out.push(c);
            }
        }
        let file = crate::util::unhex(&s.file_hex);
        // drop whole lines, then halves
        let lines: Vec<&[u8]> = file.split_inclusive(|b| *b == b'\n').collect();
        if lines.len() > 1 {
            for i in 0..lines.len().min(30) {
                let mut v = vec![];
                for (j, l) in lines.iter().enumerate() {
                    if j != i {
                        v.extend_from_slice(l);
                    }
                }
                out.push(Scn { file_hex: crate::util::hex(&v), ..s.clone() });
            }
        }
        if file.len() > 1 {
            out.push(Scn { file_hex: crate::util::hex(&file[..file.len() / 2]), ..s.clone() });
        }
        out
    }
    fn nontrivial(s: &Scn, _r: &ExecRecord) -> bool {
        !s.plans.is_empty()
    }
    fn case_hash(s: &Scn, _r: &ExecRecord) -> u64 {
        let mut h = 0xcbf29ce484222325u64;
        for b in serde_json::to_string(s).unwrap_or_default().bytes() {
            h = (h ^ b as u64).wrapping_mul(0x100000001b3);
        }
        h
    }
    fn rule() -> String {
        "one execution = one generated zone file (50% syntactically rich valid files: all supported types, directives, parentheses, comments, quoted strings, escapes, RFC 3597 generic RDATA (also hex in groups and over parenthesised lines, lengths that disagree, odd digit counts, TYPE/CLASS numbers at and beyond 16 bits), TTLs at 2^31, 2^32 and beyond in both field orders, CRLF, missing final newline, fields around the 16 KiB buffer and 64 KiB field limits, names of 253..258 octets on the wire completed by the origin in force, as owner and in RDATA; 20% token soups; 30% byte-level mutations of valid files) parsed once from a fault-free one-shot stream and then under 3-8 fault plans (read sizes 1..16385, EINTR at chosen calls or for ever, EIO after k octets, torn after k octets, bit flips; for files <= 160 octets every cut point). Non-trivial = at least one fault plan; distinct = distinct (file, plans)".into()
    }
    fn assumptions() -> Vec<String> {
        vec![
            "RDATA validity is judged by the repository's own Rdata::validate (the property's definition of 'valid')".into(),
            "after a read error an operation may fail but never return different data: the items yielded before the failure are a prefix of the fault-free sequence (the error itself may be reported as an I/O or, see DESIGN.md, as a syntax error)".into(),
            "EINTR is reported by the parser as an I/O error rather than retried (observed, outside the listed properties): accepted as 'may fail'".into(),
        ]
    }
    fn real_components() -> Vec<&'static str> {
        vec!["src/zone_file/{mod,reader,record,directive,name,character_string,escape}.rs", "src/rr/rdata (validate)"]
    }
    fn stub_components() -> Vec<&'static str> {
        vec!["the byte stream: simrt::stream::FaultyReader (short reads, EINTR, EIO, torn, bit flips)"]
    }
    fn engine() -> &'static str {
        "E3 simrt-sequential"
    }
    fn expected_probes() -> Vec<&'static str> {
        vec!["c24_refill_inside_token", "c24_error_after_prefix", "c24_eintr_propagated", "c24_torn_file_parsed", "c24_records_validated", "c24_syntax_error_file", "c24_include_item", "c24_records_only_with_include", "c24_name_near_255_yielded"]
    }
}

#[derive(Clone, Debug, PartialEq)]
enum Item {
    Rec { line: usize, owner: String, ttl: u32, class: u16, rtype: u16, rdata: Vec<u8> },
    Include { line: usize, path: Vec<u8>, origin: Option<String> },
    Syntax(String),
    Io(String),
}

struct Guard {
    inner: FaultyReader,
    limit: usize,
}
impl std::io::Read for Guard {
    fn read(&mut self, buf: &mut [u8]) -> std::io::Result<usize> {
        if self.inner.calls > self.limit {
            viol("parser-does-not-terminate", format!("more than {} read calls on a {}-octet stream (pos {})", self.limit, self.inner.data.len(), self.inner.pos));
            panic!("C24 read-call limit");
        }
        if buf.is_empty() {
            viol("zero-length-read", format!("the parser issued a read with an empty buffer at pos {}", self.inner.pos));
            panic!("C24 zero-length read");
        }
        self.inner.read(buf)
    }
}

/// Runs the parser to the end; returns the items and the reader's statistics.
fn parse_with(reader: FaultyReader) -> (Vec<Item>, usize, usize) {
    let len = reader.data.len();
    let guard = Guard { inner: reader, limit: 4 * len + 64 };
    let mut items = vec![];
    let mut parser = Parser::new(guard);
    let mut errored = false;
    let mut polls_after_error = 0;
    loop {
        let next = parser.next();
        match next {
            None => {
                if errored && polls_after_error < 3 {
                    polls_after_error += 1;
                    continue;
                }
                break;
            }
            Some(_) if errored => {
                viol("item-after-error", format!("the parser yielded another item after its first error (items so far {})", items.len()));
                break;
            }
            Some(Ok(line)) => match line.content {
                LineContent::Record(rr) => {
                    let t = u16::from(rr.rr_type);
                    if rr.rr_type == Type::NULL || rr.rr_type == Type::OPT || rr.rr_type == Type::TSIG {
                        viol("forbidden-type-yielded", format!("line {}: record of type {t}", line.number));
                    }
                    // an absolute owner is a name: at most 255 octets on the wire, ending in the root label
                    if let Err(e) = quandary::name::Name::validate_uncompressed_all(rr.owner.wire_repr()) {
                        viol("invalid-owner-yielded", format!("line {}: owner of {} octets on the wire is not a valid absolute name: {e:?}", line.number, rr.owner.wire_repr().len()));
                    }
                    if rr.owner.wire_repr().len() >= 253 || rr.rdata.octets().len() >= 253 && matches!(t, 2 | 6 | 15 | 33) {
                        simrt::probe("c24_name_near_255_yielded");
                    }
                    if let Err(e) = rr.rdata.validate(rr.class, rr.rr_type) {
                        viol("invalid-rdata-yielded", format!("line {}: type {t} class {} RDATA {} fails validation: {e:?}", line.number, u16::from(rr.class), crate::util::hex(rr.rdata.octets())));
                    }
                    simrt::probe("c24_records_validated");
                    let _ = Class::IN;
                    items.push(Item::Rec { line: line.number, owner: rr.owner.to_string(), ttl: u32::from(rr.ttl), class: u16::from(rr.class), rtype: t, rdata: rr.rdata.octets().to_vec() });
                }
                LineContent::Include(inc) => {
                    simrt::probe("c24_include_item");
                    items.push(Item::Include { line: line.number, path: inc.path, origin: inc.origin.map(|o| o.to_string()) })
                }
            },
            Some(Err(e)) => {
                errored = true;
                items.push(match e {
                    ZfError::Io(io) => Item::Io(io.kind().to_string()),
                    ZfError::Syntax(d) => Item::Syntax(format!("{d:?}")),
                });
            }
        }
        if crate::util::has_violation() {
            break;
        }
    }
    (items, 0, 0)
}

/// The `records_only()` adapter over the same stream: records until the first `$INCLUDE`, which
/// is an error there - and, like every error, the end of the iteration.
fn parse_records_only(reader: FaultyReader) -> Vec<Item> {
    let len = reader.data.len();
    let guard = Guard { inner: reader, limit: 4 * len + 64 };
    let mut items = vec![];
    let mut it = Parser::new(guard).records_only();
    let mut errored = false;
    for _ in 0..4 * len + 64 {
        match it.next() {
            None => break,
            Some(_) if errored => {
                viol("item-after-error", format!("records_only(): another item after the first error (items so far {})", items.len()));
                break;
            }
            Some(Ok(l)) => items.push(Item::Rec { line: l.number, owner: l.record.owner.to_string(), ttl: u32::from(l.record.ttl), class: u16::from(l.record.class), rtype: u16::from(l.record.rr_type), rdata: l.record.rdata.octets().to_vec() }),
            Some(Err(_)) => {
                errored = true;
                // keep polling a few times: nothing more may come
                items.push(Item::Syntax("error".into()));
            }
        }
    }
    items
}

fn run(scn: &Scn) {
    simrt::start(world_cfg(1, FaultCfg::none()));
    let file = crate::util::unhex(&scn.file_hex);
    let (base, _, _) = parse_with(FaultyReader::new(file.clone()));
    if !crate::util::has_violation() && base.iter().any(|i| matches!(i, Item::Include { .. })) {
        // the adapter must yield the records before the first $INCLUDE, then one error, then nothing
        simrt::probe("c24_records_only_with_include");
        let mut want: Vec<Item> = base.iter().take_while(|i| matches!(i, Item::Rec { .. })).cloned().collect();
        want.push(Item::Syntax("error".into()));
        let mut rd = FaultyReader::new(file.clone());
        if let Some(p) = scn.plans.first() {
            rd.chunks = p.chunks.clone();
        }
        let got = parse_records_only(rd);
        if !crate::util::has_violation() && got != want {
            viol("records-only-adapter-differs", format!("records_only() yielded {} items, expected the {} records before the first $INCLUDE and then exactly one error; got {:?}", got.len(), want.len() - 1, got.iter().rev().take(3).collect::<Vec<_>>()));
        }
    }
    if matches!(base.last(), Some(Item::Syntax(_))) {
        simrt::probe("c24_syntax_error_file");
    }
    for (pi, plan) in scn.plans.iter().enumerate() {
        if crate::util::has_violation() {
            break;
        }
        let mut data = file.clone();
        let mut changed_input = false;
        for (off, bit) in &plan.bitflips {
            if *off < data.len() {
                data[*off] ^= 1 << bit;
                changed_input = true;
                simrt::count_fault(Fault::FsBitflip);
            }
        }
        if let Some(k) = plan.torn_at {
            if k < data.len() {
                data.truncate(k);
                changed_input = true;
                simrt::count_fault(Fault::FsTorn);
                simrt::probe("c24_torn_file_parsed");
            }
        }
        let mut rd = FaultyReader::new(data);
        rd.chunks = plan.chunks.clone();
        rd.eio_at = plan.eio_at;
        rd.eintr_calls = plan.eintr_calls.clone();
        rd.eintr_forever_from = plan.eintr_forever_from;
        if !plan.chunks.is_empty() {
            simrt::count_fault(Fault::FsShortRead);
            if plan.chunks.iter().any(|c| *c < 8) {
                simrt::probe("c24_refill_inside_token");
            }
        }
        if plan.eio_at.is_some() {
            simrt::count_fault(Fault::FsEioAt);
        }
        if !plan.eintr_calls.is_empty() || plan.eintr_forever_from.is_some() {
            simrt::count_fault(Fault::FsEintr);
        }
        let (items, _, _) = parse_with(rd);
        if crate::util::has_violation() || changed_input {
            continue; // totality and validity only
        }
        let read_errors_possible = plan.eio_at.is_some() || !plan.eintr_calls.is_empty() || plan.eintr_forever_from.is_some();
        if !read_errors_possible {
            // short reads alone must not change anything
            if items != base {
                let i = items.iter().zip(&base).position(|(a, b)| a != b).unwrap_or(items.len().min(base.len()));
                viol("result-depends-on-read-chunking", format!("plan {pi} {plan:?}: item {i} is {:?} with chunked reads but {:?} from a one-shot stream ({} vs {} items)", items.get(i), base.get(i), items.len(), base.len()));
            }
        } else {
            // may fail, never yield different data: what was yielded before the failure is a
            // prefix of the fault-free items. (The parser sometimes reports a read error as a
            // *syntax* error -- `parse_ttl_and_class` treats any failure of its trial parses,
            // including I/O errors, as "field omitted" -- which is outside the listed
            // properties and only counted.)
            let (body, tail) = match items.last() {
                Some(Item::Io(k)) => {
                    if k.contains("interrupted") {
                        simrt::probe("c24_eintr_propagated");
                    }
                    (&items[..items.len() - 1], true)
                }
                Some(Item::Syntax(_)) if items != base => {
                    simrt::probe("c24_read_error_reported_as_syntax_error");
                    (&items[..items.len() - 1], true)
                }
                _ => (&items[..], false),
            };
            let is_prefix = body.len() <= base.len() && body.iter().zip(&base).all(|(a, b)| a == b);
            if !is_prefix || (!tail && items != base) {
                viol("different-data-after-read-error", format!("plan {pi} {plan:?}: items {:?} are not a prefix of the fault-free items {:?} followed by one error", items, base));
            } else if tail && !body.is_empty() {
                simrt::probe("c24_error_after_prefix");
            }
        }
    }
    simrt::finish();
}
