//! C30 – I/O providers answer each request once with correct framing.
//!
//! The whole provider runs: `bind` → `start` → listener / acceptor → worker
//! pool or tasks → `handle_tcp_connection` / UDP workers → graceful shutdown,
//! on the simulated network. Reference = the same `Server` code answering the
//! same request alone (that *is* the property).
use crate::driver::{world_cfg, Prop, Tier};
use crate::qz::{self, Cat};
use crate::util::{chance, pick, range, viol, SplitMix};
use crate::wire;
use quandary::server::{Server, Transport};
use quandary_simrt as simrt;
use serde::{Deserialize, Serialize};
use simrt::net::UdpLog;
use simrt::sched::{ExecPlan, ExecRecord, Strategy};
use simrt::{Fault, FaultCfg};
use std::net::{IpAddr, SocketAddr};
use std::sync::atomic::{AtomicU64, Ordering::SeqCst};
use std::sync::{Arc, OnceLock};
use std::time::Duration;

#[derive(Clone, Debug, Serialize, Deserialize, PartialEq)]
pub struct ReqSpec {
    /// 0 A www | 1 TXT big (2.4 kB) | 2 TXT huge (30 kB) | 3 NXDOMAIN | 4 REFUSED | 5 ANY | 6 NOTIFY (NOTIMP)
    /// 7 QR set (response-less) | 8 five octets (response-less) | 9 QDCOUNT 2 (response-less)
    /// 10 zero-length message (response-less) | 11 question cut short | 12 MX (additional section)
    pub kind: u8,
    pub edns: Option<u16>,
    /// octets of EDNS padding option (makes datagrams longer than small receive buffers)
    pub pad: u16,
}
#[derive(Clone, Debug, Serialize, Deserialize)]
pub struct TcpClient {
    pub connect_ms: u64,
    pub reqs: Vec<ReqSpec>,
    /// cyclic segment sizes for the client's writes
    pub segs: Vec<usize>,
    /// cyclic pauses (simulated ms) after each segment
    pub pauses_ms: Vec<u64>,
    /// 0 pipelined then half-close | 1 pipelined, keep open | 2 stop-and-wait, keep open
    pub mode: u8,
    /// capacity of the server→client direction (back-pressure on the server's writes)
    pub cap: usize,
    pub read_chunk: usize,
    pub read_pause_ms: u64,
    /// 0 none | 1 reset after `fault_after` octets | 2 stall for good after `fault_after` octets
    pub fault: u8,
    pub fault_after: usize,
    pub v6: bool,
}
#[derive(Clone, Debug, Serialize, Deserialize)]
pub struct UdpClient {
    pub start_ms: u64,
    pub reqs: Vec<ReqSpec>,
    pub gap_ms: u64,
    pub v6: bool,
    pub second_addr: bool,
}
#[derive(Clone, Debug, Serialize, Deserialize)]
pub struct Scn {
    /// "blocking" | "tokio"
    pub provider: String,
    pub tcp_base_workers: usize,
    pub linger_ms: u64,
    pub udp_workers: usize,
    pub payload: u16,
    pub wildcard_bind: bool,
    pub tcp: Vec<TcpClient>,
    pub udp: Vec<UdpClient>,
    pub faults: Vec<(String, u16)>,
    pub shutdown_at_ms: Option<u64>,
    pub clock: String,
    pub strategy: String,
    /// calibration run: measure the provider's time-out constants instead of checking
    #[serde(default)]
    pub calibrate: bool,
}

pub struct C30;

const S4: &str = "10.0.0.53:53";
const S4B: &str = "10.0.0.54:53";
const S6: &str = "[fd00::53]:53";
/// Implementation constants of the providers, *measured* once per process on the simulated
/// network (see `calibrate`): how long an idle TCP connection is kept open and how long
/// shutting down an idle provider takes. The client discipline ("every message within the
/// read time-out") and the liveness bounds are derived from them, so that a change of the
/// constants alone cannot raise an alarm.
pub static READ_TIMEOUT_MS: [AtomicU64; 2] = [AtomicU64::new(5_000), AtomicU64::new(5_000)];
pub static IDLE_SHUTDOWN_MS: [AtomicU64; 2] = [AtomicU64::new(1_000), AtomicU64::new(0)];
pub fn provider_ix(scn: &Scn) -> usize {
    (scn.provider == "tokio") as usize
}
/// A message may take at most this long (80 % of the measured read time-out).
pub fn msg_budget_ms(scn: &Scn) -> u64 {
    READ_TIMEOUT_MS[provider_ix(scn)].load(SeqCst) * 4 / 5
}
/// How long a client waits in one read before it gives up (6 x the read time-out).
pub fn client_patience(scn: &Scn) -> Duration {
    Duration::from_millis(READ_TIMEOUT_MS[provider_ix(scn)].load(SeqCst) * 6)
}
pub fn shutdown_bound_ms(scn: &Scn) -> u64 {
    IDLE_SHUTDOWN_MS[provider_ix(scn)].load(SeqCst) + READ_TIMEOUT_MS[provider_ix(scn)].load(SeqCst) + 10
}

fn huge_zone() -> Arc<quandary::db::HashMapTreeZone> {
    static Z: OnceLock<Arc<quandary::db::HashMapTreeZone>> = OnceLock::new();
    Z.get_or_init(|| {
        let mut z = qz::ZoneBuilder::new("example.", wire::C_IN);
        z.soa_ns("example.", 1);
        z.add("www.example.", wire::T_A, 60, &[10, 0, 0, 1]);
        z.add("mail.example.", wire::T_A, 60, &[10, 0, 0, 2]);
        z.add("mail.example.", wire::T_AAAA, 60, &[0x20, 1, 0xd, 0xb8, 0, 0, 0, 0, 0, 0, 0, 0, 0, 0, 0, 2]);
        z.add("example.", wire::T_MX, 60, &{
            let mut v = vec![0, 10];
            v.extend(wire::name_wire("mail.example."));
            v
        });
        for i in 0..40u16 {
            let mut t = vec![b'a' + (i % 26) as u8; 60];
            t[0] = i as u8;
            z.add("big.example.", wire::T_TXT, 60, &wire::txt_rdata(&t));
        }
        for i in 0..480u16 {
            let mut t = vec![b'A' + (i % 26) as u8; 60];
            t[0] = (i >> 8) as u8;
            t[1] = i as u8;
            z.add("huge.example.", wire::T_TXT, 60, &wire::txt_rdata(&t));
        }
        z.finish()
    })
    .clone()
}
fn catalog() -> Arc<Cat> {
    qz::catalog_of(vec![huge_zone()])
}

pub fn build_req(spec: &ReqSpec, id: u16) -> Vec<u8> {
    let (qn, qt, flags): (&str, u16, u16) = match spec.kind {
        0 => ("www.example.", wire::T_A, 0),
        1 => ("big.example.", wire::T_TXT, 0),
        2 => ("huge.example.", wire::T_TXT, 0),
        3 => ("nosuch.example.", wire::T_A, 0),
        4 => ("www.elsewhere.", wire::T_A, 0),
        5 => ("www.example.", wire::T_ANY, 0x0100),
        6 => ("example.", wire::T_SOA, 4 << 11),
        7 => ("www.example.", wire::T_A, 0x8000),
        8 => return vec![(id >> 8) as u8, id as u8, 0, 0, 0],
        9 => ("www.example.", wire::T_A, 0),
        10 => return vec![],
        11 => ("www.example.", wire::T_A, 0),
        _ => ("example.", wire::T_MX, 0),
    };
    let mut m = wire::Msg { id, flags, ..Default::default() };
    let q = wire::Question { qname: wire::name(qn), qtype: qt, qclass: wire::C_IN };
    m.questions.push(q.clone());
    if spec.kind == 9 {
        m.questions.push(q);
    }
    if let Some(p) = spec.edns {
        let mut opts = vec![];
        if spec.pad > 0 {
            // u16::MAX = "fill the message to 65535 octets", the largest frame TCP can carry
            let pad = if spec.pad == u16::MAX { (65_535 - (wire::encode(&m).len() + 11 + 4)) as u16 } else { spec.pad };
            opts.extend(12u16.to_be_bytes());
            opts.extend(pad.to_be_bytes());
            opts.extend(vec![0u8; pad as usize]);
        }
        m.additional.push(wire::opt_rr(p, 0, 0, &opts));
    }
    let mut out = wire::encode(&m);
    if out.len() > 10_000 {
        simrt::probe("c30_jumbo_request");
    }
    if spec.kind == 11 {
        out.truncate(12 + 6); // header says one question, the question is cut short
    }
    out
}

fn gen_req(r: &mut SplitMix, tcp: bool) -> ReqSpec {
    let kind = match r.below(20) {
        0..=5 => 0,
        6..=7 => 1,
        8 => {
            if tcp {
                2
            } else {
                1
            }
        }
        9 => 3,
        10 => 4,
        11 => 5,
        12 => 6,
        13 => 12,
        14 => 11,
        15 => 7,
        16 => 8,
        17 => 9,
        18 => {
            if tcp {
                10
            } else {
                0
            }
        }
        _ => 0,
    };
    let edns = if chance(r, 40) { Some(*pick(r, &[512u16, 1232, 4096, 65535, 300])) } else { None };
    let pad = if edns.is_some() && chance(r, 20) { *pick(r, &[100u16, 600, 1300, 5000]) } else { 0 };
    // (requests of tens of kilobytes - up to the largest frame TCP can carry - are added per
    // client in `gen`: see `jumbo`)
    ReqSpec { kind, edns, pad }
}

impl Prop for C30 {
    const ID: &'static str = "C30";
    type Scn = Scn;
    fn runs(tier: Tier) -> u64 {
        match tier {
            Tier::Quick => 60_000,
            Tier::Thorough => 2_000_000,
        }
    }
    fn gen(r: &mut SplitMix, _t: Tier, idx: u64) -> Scn {
        let provider = if idx % 2 == 0 { "blocking" } else { "tokio" }.to_string();
        let linger_ms = *pick(r, &[0u64, 1000, 1000, 15000]);
        let n_tcp = range(r, 0, 4) as usize;
        let n_udp = if n_tcp == 0 { range(r, 1, 3) } else { range(r, 0, 3) } as usize;
        // connect times and gaps on a grid containing the linger value and the read timeout
        let grid = [0u64, 0, 1, 500, linger_ms, linger_ms, linger_ms + 1, 2 * linger_ms, 999, 1000, 4000];
        let mut tcp = vec![];
        for _ in 0..n_tcp {
            let nreq = range(r, 1, 8) as usize;
            let fault = match r.below(12) {
                0 => 1,
                1 => 2,
                _ => 0,
            };
            let mut reqs: Vec<ReqSpec> = (0..nreq).map(|_| gen_req(r, true)).collect();
            // jumbo client (one in sixteen): most of its requests are tens of kilobytes long
            // (EDNS padding), one possibly filling a TCP frame to the last octet (65535), so that
            // the providers' receive buffers are used to their end and leftovers are large
            let jumbo = chance(r, 6);
            if jumbo {
                for q in reqs.iter_mut() {
                    if matches!(q.kind, 0 | 1 | 3 | 4 | 5 | 12) && chance(r, 75) {
                        q.edns = Some(q.edns.unwrap_or(1232));
                        q.pad = *pick(r, &[16_000u16, 20_000, 30_000, 30_000, 45_000, u16::MAX]);
                    }
                }
            }
            // tens of kilobytes are not read octet by octet (cost, not correctness)
            let big = jumbo || reqs.iter().any(|q| q.kind == 2);
            tcp.push(TcpClient {
                connect_ms: *pick(r, &grid),
                reqs,
                segs: if jumbo { (0..range(r, 1, 3)).map(|_| *pick(r, &[1000usize, 4096, 30_001, 65_536, 200_000])).collect() } else { (0..range(r, 1, 4)).map(|_| *pick(r, &[1usize, 1, 2, 3, 7, 13, 37, 200, 70000])).collect() },
                pauses_ms: (0..range(r, 1, 3)).map(|_| *pick(r, &[0u64, 0, 0, 1, 10, 300, 999, 1500])).collect(),
                mode: r.below(3) as u8,
                cap: *pick(r, &[64usize, 1000, 1 << 20, 1 << 20]),
                read_chunk: if big { *pick(r, &[512usize, 4096, 65536]) } else { *pick(r, &[1usize, 7, 512, 65536]) },
                read_pause_ms: *pick(r, &[0u64, 0, 0, 1, 20]),
                fault,
                fault_after: range(r, 0, 120) as usize,
                v6: chance(r, 25),
            });
        }
        let mut udp = vec![];
        for _ in 0..n_udp {
            let nreq = range(r, 1, 6) as usize;
            udp.push(UdpClient {
                start_ms: *pick(r, &grid),
                reqs: (0..nreq).map(|_| gen_req(r, false)).collect(),
                gap_ms: *pick(r, &[0u64, 0, 1, 50, 1000]),
                v6: chance(r, 25),
                second_addr: chance(r, 30),
            });
        }
        // swarm: each run enables a random subset of fault kinds
        let mut faults = vec![];
        if chance(r, 70) {
            let kinds: &[(&str, u16)] = if provider == "blocking" {
                &[
                    ("eintr_read", 80), ("eintr_write", 80), ("tcp_short_read", 150), ("tcp_short_write", 150), ("eintr_accept", 150),
                    ("eintr_poll", 150), ("eintr_udp_recv", 100), ("eintr_udp_send", 100), ("udp_loss", 100), ("udp_dup", 100),
                    ("udp_reorder", 200), ("udp_delay", 200), ("udp_send_error", 100), ("spurious_wakeup", 30), ("timeout_kind_timedout", 500),
                    ("spawn_fail", 40), ("accept_error", 80), ("udp_recv_error", 30),
                ]
            } else {
                &[
                    ("tcp_short_read", 150), ("tcp_short_write", 150), ("spurious_pending", 100), ("udp_loss", 100), ("udp_dup", 100),
                    ("udp_delay", 200), ("udp_send_error", 100), ("accept_error", 80), ("udp_recv_error", 30),
                ]
            };
            for (k, rate) in kinds {
                let p = if *k == "spawn_fail" { 6 } else { 35 };
                if chance(r, p) {
                    faults.push((k.to_string(), *rate));
                }
            }
        }
        let clock = if provider == "tokio" {
            "des".to_string()
        } else {
            match r.below(10) {
                0..=6 => "des".to_string(),
                7 => "eager:5".to_string(),
                8 => "eager:20".to_string(),
                _ => "eager:50".to_string(),
            }
        };
        let mut shutdown_at_ms = if chance(r, 12) { Some(*pick(r, &grid) + r.below(3) * 700) } else { None };
        let mut clock = clock;
        if chance(r, 3) {
            // "long pipeliner" profile for the graceful-shutdown bound: one well-behaved client keeps
            // pipelining small requests for a long time, each write delivering the rest of one
            // request together with the start of the next, while the group is shut down early on
            let nreq = range(r, 10, 16) as usize;
            // a plain query frame here is 2 + 29 = 31 octets: writes of a size coprime to it
            // straddle every frame boundary
            let seg = *pick(r, &[17usize, 19, 23, 40]);
            tcp = vec![TcpClient {
                connect_ms: 0,
                reqs: (0..nreq).map(|_| ReqSpec { kind: 0, edns: None, pad: 0 }).collect(),
                segs: vec![seg],
                pauses_ms: vec![1500],
                mode: 1,
                cap: 1 << 20,
                read_chunk: 65536,
                read_pause_ms: 0,
                fault: 0,
                fault_after: 0,
                v6: false,
            }];
            faults.clear();
            clock = "des".to_string();
            shutdown_at_ms = Some(range(r, 200, 4000));
        }
        Scn {
            provider,
            tcp_base_workers: range(r, 0, 3) as usize,
            linger_ms,
            udp_workers: range(r, 1, 3) as usize,
            payload: *pick(r, &[512u16, 1232, 1232, 4096]),
            wildcard_bind: chance(r, 30),
            tcp,
            udp,
            faults,
            shutdown_at_ms,
            clock,
            strategy: pick(r, &["random", "random", "random", "pct:2", "pct:3"]).to_string(),
            calibrate: false,
        }
    }
    fn plan(r: &mut SplitMix, scn: &Scn) -> ExecPlan {
        ExecPlan {
            seed: r.next(),
            strategy: if scn.provider == "tokio" { Strategy::Random } else { crate::parse_strategy(&scn.strategy, 400) },
            clock: crate::parse_clock(&scn.clock),
            max_steps: 150_000,
        }
    }
    // Step-bound exhaustion is always inconclusive here: a legitimate run (tens of kilobytes read
    // in tiny chunks, minutes of simulated polling) can need many decisions. Liveness is checked
    // in simulated time instead: client read time-outs, the shutdown bound, engine-detected deadlock.
    fn prepare() {
        static DONE: OnceLock<()> = OnceLock::new();
        DONE.get_or_init(|| {
            for provider in ["blocking", "tokio"] {
                let scn = Scn {
                    provider: provider.into(), tcp_base_workers: 1, linger_ms: 0, udp_workers: 1, payload: 1232, wildcard_bind: false, tcp: vec![], udp: vec![],
                    faults: vec![], shutdown_at_ms: None, clock: "des".into(), strategy: "random".into(), calibrate: true,
                };
                let plan = ExecPlan { seed: 1, strategy: Strategy::Random, clock: simrt::sched::ClockPolicy::Des, max_steps: 1_000_000 };
                let out = crate::driver::execute_once::<C30>(&scn, plan, false);
                if out.violation.is_some() {
                    eprintln!("C30 calibration failed for the {provider} provider: {:?}; using defaults", out.violation);
                }
            }
        });
    }
    fn run(scn: &Scn) {
        if scn.provider == "tokio" {
            super::c30_tokio::run(scn)
        } else {
            run_blocking(scn)
        }
    }
    fn stack_size() -> usize {
        2 << 20
    }
    fn shrink(s: &Scn) -> Vec<Scn> {
        let mut out = vec![];
        for i in 0..s.tcp.len() {
            let mut c = s.clone();
            c.tcp.remove(i);
            if !c.tcp.is_empty() || !c.udp.is_empty() {
                out.push(c);
            }
        }
        for i in 0..s.udp.len() {
            let mut c = s.clone();
            c.udp.remove(i);
            if !c.tcp.is_empty() || !c.udp.is_empty() {
                out.push(c);
            }
        }
        for i in 0..s.faults.len() {
            let mut c = s.clone();
            c.faults.remove(i);
            out.push(c);
        }
        if s.shutdown_at_ms.is_some() {
            let mut c = s.clone();
            c.shutdown_at_ms = None;
            out.push(c);
        }
        for i in 0..s.tcp.len() {
            for j in 0..s.tcp[i].reqs.len() {
                if s.tcp[i].reqs.len() > 1 {
                    let mut c = s.clone();
                    c.tcp[i].reqs.remove(j);
                    out.push(c);
                }
            }
            if s.tcp[i].fault != 0 {
                let mut c = s.clone();
                c.tcp[i].fault = 0;
                out.push(c);
            }
            if s.tcp[i].pauses_ms.iter().any(|p| *p > 0) {
                let mut c = s.clone();
                c.tcp[i].pauses_ms = vec![0];
                out.push(c);
            }
            if s.tcp[i].segs != vec![70000] {
                let mut c = s.clone();
                c.tcp[i].segs = vec![70000];
                out.push(c);
            }
            if s.tcp[i].cap != 1 << 20 {
                let mut c = s.clone();
                c.tcp[i].cap = 1 << 20;
                out.push(c);
            }
            if s.tcp[i].connect_ms != 0 {
                let mut c = s.clone();
                c.tcp[i].connect_ms = 0;
                out.push(c);
            }
        }
        for i in 0..s.udp.len() {
            for j in 0..s.udp[i].reqs.len() {
                if s.udp[i].reqs.len() > 1 {
                    let mut c = s.clone();
                    c.udp[i].reqs.remove(j);
                    out.push(c);
                }
            }
        }
        if s.clock != "des" {
            let mut c = s.clone();
            c.clock = "des".into();
            out.push(c);
        }
        if s.tcp_base_workers > 0 {
            let mut c = s.clone();
            c.tcp_base_workers -= 1;
            out.push(c);
        }
        out
    }
    fn nontrivial(s: &Scn, rec: &ExecRecord) -> bool {
        rec.preemptions > 0 || !s.faults.is_empty() || s.tcp.iter().any(|c| c.segs.iter().any(|x| *x < 100))
    }
    fn rule() -> String {
        "one execution = one whole-system run of an I/O provider (even runs: blocking provider on simulated threads; odd runs: Tokio provider on a paused, seeded current-thread runtime) with 0-4 TCP clients (1-8 length-prefixed requests each: valid, large, malformed, response-less; random segmentation down to single octets incl. inside the length prefix; pauses on a grid aligned with linger and read time-outs; pipelined/half-close/stop-and-wait; slow readers with back-pressure; optional reset/stall) and 0-3 UDP clients, a random subset of fault kinds (EINTR on read/write/accept/poll/recv/send, short reads/writes, datagram loss/dup/reorder/delay/truncation/send errors, spurious wake-ups/Pending, thread-spawn failure), optional mid-run shutdown; DES or eager clock; random or PCT schedule. Non-trivial = preemption, a fault kind enabled or sub-100-octet segmentation; distinct = distinct (scenario, schedule) hash".into()
    }
    fn assumptions() -> Vec<String> {
        vec![
            "requests on which the reference `handle_message` itself unwinds are removed from the batch (C01's business)".into(),
            "exact TCP equality + EOF is required only under the DES clock without connection fault, mid-run shutdown or spawn failure; otherwise the received octets must be a message-granular prefix of the expected stream".into(),
            "client writes keep every message within 80 % of the provider's read time-out, which is measured once per process on an idle connection (as are the idle-shutdown time and, from them, the client patience and the shutdown bound): changing those constants alone cannot raise an alarm".into(),
            "the wall clock is frozen relative to simulated time; no TSIG and no RRL in this workload".into(),
        ]
    }
    fn real_components() -> Vec<&'static str> {
        vec!["src/io/blocking.rs (bind, start, listener loop, handle_tcp_connection, UDP workers)", "src/io/tokio.rs (bind, start, respawning, acceptor, connection and UDP tasks, shutdown controller)", "src/thread.rs", "src/server, src/db, src/message below handle_message"]
    }
    fn stub_components() -> Vec<&'static str> {
        vec!["sockets: src/io/socket/{unix_tcp,unix_udp_localaddr,std_*}.rs replaced by the simulated network", "threads/tasks: coroutines; Tokio current-thread runtime with paused clock and seeded RNG", "clocks/timers: simulated", "Tokio multi-thread scheduler and real reactor: not simulated"]
    }
    fn engine() -> &'static str {
        "E1 simrt-threads (blocking provider) + E2 tokio-paused (Tokio provider)"
    }
    fn extra_coverage(_stats: &simrt::Stats) -> serde_json::Value {
        serde_json::json!({ "measured_provider_constants": calibration_summary() })
    }
    fn expected_probes() -> Vec<&'static str> {
        vec!["c30_tcp_exact_stream_checked", "c30_tcp_closed_after_responseless", "c30_tcp_leftover_pipelined", "c30_udp_truncated_to_buffer", "c30_shutdown_midrun", "tcp_write_blocked_on_backpressure", "c30_udp_exactly_once_checked", "c30_tokio_runs", "c30_blocking_runs", "c30_midrun_shutdown_bound_checked", "c30_jumbo_request"]
    }
}

// ---------------------------------------------------------------------------------------------
// shared between the two providers
// ---------------------------------------------------------------------------------------------

pub fn fault_cfg(scn: &Scn) -> FaultCfg {
    let mut f = FaultCfg::none();
    for (k, rate) in &scn.faults {
        if let Some(kind) = Fault::from_name(k) {
            f = f.with(kind, *rate);
        }
    }
    f
}
pub fn has_fault(scn: &Scn, k: &str) -> bool {
    scn.faults.iter().any(|f| f.0 == k)
}

pub fn server_addrs(scn: &Scn) -> (Vec<SocketAddr>, Vec<SocketAddr>) {
    if scn.wildcard_bind {
        (vec!["0.0.0.0:53".parse().unwrap(), "[::]:53".parse().unwrap()], vec!["0.0.0.0:53".parse().unwrap(), "[::]:53".parse().unwrap()])
    } else {
        let a: Vec<SocketAddr> = vec![S4.parse().unwrap(), S4B.parse().unwrap(), S6.parse().unwrap()];
        (a.clone(), a)
    }
}
pub fn tcp_client_addr(i: usize, v6: bool) -> SocketAddr {
    if v6 {
        format!("[fd00::{:x}]:{}", 0x100 + i, 40000 + i).parse().unwrap()
    } else {
        format!("10.0.1.{}:{}", i + 1, 40000 + i).parse().unwrap()
    }
}
pub fn udp_client_addr(i: usize, v6: bool) -> SocketAddr {
    if v6 {
        format!("[fd00::{:x}]:{}", 0x200 + i, 50000 + i).parse().unwrap()
    } else {
        format!("10.0.2.{}:{}", i + 1, 50000 + i).parse().unwrap()
    }
}
pub fn target_addr(v6: bool, second: bool) -> SocketAddr {
    if v6 {
        S6.parse().unwrap()
    } else if second {
        S4B.parse().unwrap()
    } else {
        S4.parse().unwrap()
    }
}

pub fn make_server(scn: &Scn) -> Server<Cat> {
    let mut s = Server::new(catalog());
    s.set_edns_udp_payload_size(scn.payload).expect("payload");
    s
}

/// The server's response to one request handled alone; `Err` if the server code unwinds.
pub fn reference(server: &Server<Cat>, msg: &[u8], src: IpAddr, t: Transport) -> Result<Option<Vec<u8>>, ()> {
    std::panic::catch_unwind(std::panic::AssertUnwindSafe(|| qz::ask(server, msg, src, t))).map_err(|_| {
        let _ = crate::util::take_last_panic();
    })
}

/// What a TCP client will put on the wire and what it must get back.
pub struct TcpPlan {
    pub stream: Vec<u8>,
    /// offsets in `stream` where each message ends
    pub msg_ends: Vec<usize>,
    pub expected: Vec<u8>,
    /// offsets in `expected` where each response ends
    pub resp_ends: Vec<usize>,
    pub ends_with_responseless: bool,
    pub dropped_requests: usize,
}
pub fn tcp_plan(scn: &Scn, ci: usize, reference_server: &Server<Cat>) -> TcpPlan {
    let c = &scn.tcp[ci];
    let src = tcp_client_addr(ci, c.v6).ip();
    let mut p = TcpPlan { stream: vec![], msg_ends: vec![], expected: vec![], resp_ends: vec![], ends_with_responseless: false, dropped_requests: 0 };
    for (j, spec) in c.reqs.iter().enumerate() {
        let msg = build_req(spec, (ci * 256 + j) as u16);
        match reference(reference_server, &msg, src, Transport::Tcp) {
            Err(()) => {
                p.dropped_requests += 1;
                continue;
            }
            Ok(resp) => {
                p.stream.extend((msg.len() as u16).to_be_bytes());
                p.stream.extend(&msg);
                p.msg_ends.push(p.stream.len());
                match resp {
                    Some(r) => {
                        if !p.ends_with_responseless {
                            p.expected.extend((r.len() as u16).to_be_bytes());
                            p.expected.extend(&r);
                            p.resp_ends.push(p.expected.len());
                        }
                    }
                    None => p.ends_with_responseless = true,
                }
            }
        }
    }
    p
}

#[derive(Default, Debug)]
pub struct TcpResult {
    pub received: Vec<u8>,
    pub eof: bool,
    pub read_error: Option<String>,
    pub timed_out: bool,
}

/// Judges what a TCP client received.
pub fn judge_tcp(scn: &Scn, ci: usize, plan: &TcpPlan, res: &TcpResult, exact: bool) {
    let c = &scn.tcp[ci];
    let who = format!("{} provider, TCP client {ci}", scn.provider);
    if !plan.expected.starts_with(&res.received) {
        let at = plan.expected.iter().zip(&res.received).position(|(a, b)| a != b).unwrap_or(plan.expected.len().min(res.received.len()));
        viol(
            "tcp-stream-differs",
            format!("{who}: received {} octets, expected {}; first difference at offset {at}; requests {:?}", res.received.len(), plan.expected.len(), c.reqs),
        );
        return;
    }
    if c.fault == 1 {
        return; // the client reset the connection: nothing more can be said
    }
    if exact {
        simrt::probe("c30_tcp_exact_stream_checked");
        if res.received.len() != plan.expected.len() {
            viol(
                "tcp-responses-missing",
                format!("{who}: received {} of {} expected octets ({} of {} responses); eof={} timed_out={} err={:?}; requests {:?}", res.received.len(), plan.expected.len(), plan.resp_ends.iter().filter(|e| **e <= res.received.len()).count(), plan.resp_ends.len(), res.eof, res.timed_out, res.read_error, c.reqs),
            );
            return;
        }
        if !res.eof && c.fault == 0 {
            viol("tcp-connection-not-closed", format!("{who}: all responses received but no EOF within the client's patience (6 x the read time-out) (response-less request last: {}); err={:?}", plan.ends_with_responseless, res.read_error));
            return;
        }
        if plan.ends_with_responseless {
            simrt::probe("c30_tcp_closed_after_responseless");
        }
    } else if res.eof {
        // the server closed the connection: never inside a response (a client that gave up
        // after 30 s of silence may of course hold a partial response)
        if !(res.received.is_empty() || plan.resp_ends.contains(&res.received.len())) {
            viol("tcp-torn-response", format!("{who}: connection ended after {} octets, inside a response (boundaries {:?})", res.received.len(), plan.resp_ends));
        }
    }
}

/// Judges the UDP side from the network's log. `complete` = every received request with a
/// reference response must have been answered exactly once.
pub fn judge_udp(scn: &Scn, log: &UdpLog, reference_server: &Server<Cat>, complete: bool) {
    let is_server = |a: &SocketAddr| a.port() == 53;
    let mut received: Vec<(usize, &simrt::net::Dgram, usize)> = log.received.iter().filter(|(d, _)| is_server(&d.dst)).map(|(d, n)| (0usize, d, *n)).collect();
    for (_, d, n) in &received {
        if *n < d.data.len() {
            simrt::probe("c30_udp_truncated_to_buffer");
        }
    }
    let mut expected: Vec<Option<Vec<u8>>> = vec![];
    for (_, d, n) in &received {
        expected.push(reference(reference_server, &d.data[..*n], d.src.ip(), Transport::Udp).unwrap_or(None));
    }
    for s in log.sent.iter().filter(|d| is_server(&d.src)) {
        if s.data.len() > scn.payload as usize {
            viol("udp-response-larger-than-payload-size", format!("{} provider: {} octets sent, configured payload size {}", scn.provider, s.data.len(), scn.payload));
            return;
        }
        let m = (0..received.len()).find(|&i| {
            let (used, r, _) = &received[i];
            *used == 0 && r.src == s.dst && r.dst.ip() == s.src.ip() && expected[i].as_deref() == Some(&s.data[..])
        });
        match m {
            Some(i) => received[i].0 = 1,
            None => {
                viol(
                    "udp-response-without-matching-request",
                    format!("{} provider: datagram of {} octets from {} to {} (id {:02x}{:02x}) matches no unanswered request the server received (wrong destination, wrong source address, wrong content or answered twice)", scn.provider, s.data.len(), s.src, s.dst, s.data.first().copied().unwrap_or(0), s.data.get(1).copied().unwrap_or(0)),
                );
                return;
            }
        }
    }
    if complete {
        simrt::probe("c30_udp_exactly_once_checked");
        for (i, (used, r, n)) in received.iter().enumerate() {
            if *used == 0 && expected[i].is_some() {
                viol("udp-request-not-answered", format!("{} provider: request of {} octets (received {}) from {} to {} was never answered", scn.provider, r.data.len(), n, r.src, r.dst));
                return;
            }
        }
    }
}

// ---------------------------------------------------------------------------------------------
// blocking provider on E1
// ---------------------------------------------------------------------------------------------

fn run_blocking(scn: &Scn) {
    use quandary::io::{BlockingIoConfig, BlockingIoProvider};
    use quandary::thread::ThreadGroup;
    simrt::start(world_cfg(3, fault_cfg(scn)));
    simrt::probe("c30_blocking_runs");
    let des = scn.clock == "des";
    let server = Arc::new(make_server(scn));
    let reference_server = make_server(scn);
    let (tcp_addrs, udp_addrs) = server_addrs(scn);
    let cfg = BlockingIoConfig { tcp_base_workers: scn.tcp_base_workers, tcp_worker_linger: Duration::from_millis(scn.linger_ms), udp_workers_per_socket: scn.udp_workers };
    let provider = BlockingIoProvider::bind(cfg, tcp_addrs, udp_addrs).expect("bind");
    let group = ThreadGroup::new();
    let started = provider.start(&server, &group);
    let spawn_fail = has_fault(scn, "spawn_fail");
    if let Err(e) = &started {
        if !spawn_fail {
            viol("provider-start-failed", format!("{e}"));
        }
        group.shut_down();
        group.await_shutdown();
        simrt::thread::wait_all_exited();
        simrt::finish();
        return;
    }

    if scn.calibrate {
        // an idle connection: how long until the server closes it?
        use std::io::Read;
        let mut c = simrt::net::connect(target_addr(false, false), tcp_client_addr(0, false), 1 << 20).expect("connect");
        let _ = c.set_read_timeout(Some(Duration::from_secs(3600)));
        let t0 = simrt::now_ns();
        let mut b = [0u8; 8];
        if let Ok(0) = c.read(&mut b) {
            READ_TIMEOUT_MS[0].store(((simrt::now_ns() - t0) / 1_000_000).max(100), SeqCst);
        }
        drop(c);
        simrt::thread::sleep(Duration::from_millis(100));
        let t0 = simrt::now_ns();
        group.shut_down();
        group.await_shutdown();
        IDLE_SHUTDOWN_MS[0].store((simrt::now_ns() - t0) / 1_000_000, SeqCst);
        simrt::thread::wait_all_exited();
        simrt::finish();
        return;
    }
    let plans: Vec<Arc<TcpPlan>> = (0..scn.tcp.len()).map(|i| Arc::new(tcp_plan(scn, i, &reference_server))).collect();
    let results: Vec<Arc<std::sync::Mutex<TcpResult>>> = (0..scn.tcp.len()).map(|_| Arc::new(std::sync::Mutex::new(TcpResult::default()))).collect();
    let mut hs = vec![];
    for (ci, c) in scn.tcp.iter().enumerate() {
        let (c, plan, result) = (c.clone(), plans[ci].clone(), results[ci].clone());
        let (budget, patience) = (msg_budget_ms(scn), client_patience(scn));
        hs.push(shuttle::thread::spawn(move || {
            simrt::thread::sleep(Duration::from_millis(c.connect_ms));
            let Ok(mut stream) = simrt::net::connect(target_addr(c.v6, false), tcp_client_addr(ci, c.v6), c.cap) else {
                result.lock().unwrap().read_error = Some("connection refused".into());
                return;
            };
            simrt::event("client_connected", ci as u64, 0);
            let (mut seg_i, mut msg_elapsed) = (0usize, 0u64);
            if c.mode == 2 {
                // stop-and-wait: one task alternates between writing a request and reading its response
                let mut from = 0;
                let mut resp_i = 0;
                for end in plan.msg_ends.iter() {
                    if !client_write_b(&mut stream, &c, &plan, from, *end, &mut seg_i, &mut msg_elapsed, budget) {
                        break;
                    }
                    from = *end;
                    if resp_i < plan.resp_ends.len() {
                        client_read_b(&mut stream, &c, &result, Some(plan.resp_ends[resp_i]), patience);
                        resp_i += 1;
                        let r = result.lock().unwrap();
                        if r.eof || r.timed_out || r.read_error.is_some() {
                            break;
                        }
                    }
                }
                let done = {
                    let r = result.lock().unwrap();
                    r.eof || r.timed_out || r.read_error.is_some()
                };
                if c.fault == 1 {
                    stream.reset();
                    simrt::count_fault(Fault::TcpPeerReset);
                } else if !done {
                    if c.fault == 2 {
                        simrt::count_fault(Fault::ClientStall);
                    }
                    client_read_b(&mut stream, &c, &result, None, patience);
                }
            } else {
                // pipelined: a writer task (this one) and a reader task on a clone of the stream
                let mut rd = stream.try_clone().expect("clone");
                let (c2, r2) = (c.clone(), result.clone());
                let reader_task = shuttle::thread::spawn(move || client_read_b(&mut rd, &c2, &r2, None, patience));
                let all = client_write_b(&mut stream, &c, &plan, 0, plan.stream.len(), &mut seg_i, &mut msg_elapsed, budget);
                if c.fault == 1 {
                    stream.reset();
                    simrt::count_fault(Fault::TcpPeerReset);
                } else if c.fault == 2 {
                    simrt::count_fault(Fault::ClientStall);
                } else if all && c.mode == 0 {
                    stream.shutdown_write();
                    simrt::count_fault(Fault::TcpPeerHalfClose);
                }
                let _ = reader_task.join();
                if plan.msg_ends.len() > 1 {
                    simrt::probe("c30_tcp_leftover_pipelined");
                }
            }
        }));
    }
    // UDP clients
    for (ui, u) in scn.udp.iter().enumerate() {
        let u = u.clone();
        let payload = scn.payload as usize;
        // requests on which the server code itself unwinds are C01's business
        let msgs: Vec<Vec<u8>> = u
            .reqs
            .iter()
            .enumerate()
            .map(|(j, spec)| build_req(spec, (0x8000 + ui * 256 + j) as u16))
            .filter(|m| reference(&reference_server, &m[..m.len().min(payload)], udp_client_addr(ui, u.v6).ip(), Transport::Udp).is_ok())
            .collect();
        hs.push(shuttle::thread::spawn(move || {
            simrt::thread::sleep(Duration::from_millis(u.start_ms));
            let me = udp_client_addr(ui, u.v6);
            let to = target_addr(u.v6, u.second_addr);
            let _sock = simrt::net::UdpSocket::bind_client(me);
            for msg in msgs {
                simrt::net::send_datagram(me, to, &msg);
                if u.gap_ms > 0 {
                    simrt::thread::sleep(Duration::from_millis(u.gap_ms));
                }
            }
        }));
    }
    // optional mid-run shutdown
    let mut midrun = false;
    // graceful shutdown while clients are active: with well-behaved clients only (no reset, no
    // stall, reading without pauses) every connection handler finishes the message it is at -
    // the client completes it within the message budget - answers it and then leaves, however
    // much more the client has pipelined; so the group must be down within the idle-shutdown
    // bound plus one message budget. (With slow readers the server may legitimately sit in a
    // blocked write, so no bound is stated there.)
    let polite = scn.tcp.iter().all(|c| c.fault == 0 && c.read_pause_ms == 0 && c.cap >= 1 << 20);
    let midrun_took_ms = Arc::new(AtomicU64::new(u64::MAX));
    if let Some(at) = scn.shutdown_at_ms {
        midrun = true;
        let (group, took) = (group.clone(), midrun_took_ms.clone());
        hs.push(shuttle::thread::spawn(move || {
            simrt::thread::sleep(Duration::from_millis(at));
            simrt::count_fault(Fault::Shutdown);
            simrt::probe("c30_shutdown_midrun");
            let t0 = simrt::now_ns();
            group.shut_down();
            group.await_shutdown();
            took.store((simrt::now_ns() - t0) / 1_000_000, SeqCst);
        }));
    }
    for h in hs {
        let _ = h.join();
    }
    // let datagrams in flight arrive and be answered
    simrt::thread::sleep(Duration::from_millis(2_500));
    let t0 = simrt::now_ns();
    group.shut_down();
    group.await_shutdown();
    let took_ms = (simrt::now_ns() - t0) / 1_000_000;
    simrt::thread::wait_all_exited();
    let midrun_bound = shutdown_bound_ms(scn) + msg_budget_ms(scn) + 1_000;
    if des && midrun && polite && !spawn_fail && scn.faults.is_empty() && midrun_took_ms.load(SeqCst) != u64::MAX {
        simrt::probe("c30_midrun_shutdown_bound_checked");
        if midrun_took_ms.load(SeqCst) > midrun_bound {
            viol("shutdown-too-slow", format!("blocking provider: with well-behaved clients still sending, await_shutdown returned {} simulated ms after shut_down (bound {midrun_bound} ms: idle-shutdown bound + one message budget)", midrun_took_ms.load(SeqCst)));
        }
    }
    if des && !midrun && took_ms > shutdown_bound_ms(scn) {
        viol("shutdown-too-slow", format!("blocking provider: await_shutdown returned {took_ms} simulated ms after shut_down (bound {} ms)", shutdown_bound_ms(scn)));
    }

    let exact_ok = des && !midrun && !spawn_fail;
    for ci in 0..scn.tcp.len() {
        let res = results[ci].lock().unwrap();
        judge_tcp(scn, ci, &plans[ci], &res, exact_ok && scn.tcp[ci].fault == 0);
        if crate::util::has_violation() {
            break;
        }
    }
    let log = simrt::net::take_udp_log();
    let complete = des && !midrun && !has_fault(scn, "udp_send_error") && !has_fault(scn, "udp_recv_error") && !spawn_fail;
    if !crate::util::has_violation() {
        judge_udp(scn, &log, &reference_server, complete);
    }
    simrt::finish();
}

/// Client reader: collects octets until EOF, error, a 30 s silence, or `until` octets.
fn client_read_b(s: &mut simrt::net::TcpStream, c: &TcpClient, result: &std::sync::Mutex<TcpResult>, until: Option<usize>, patience: Duration) {
    use std::io::Read;
    // stop-and-wait clients read without pauses: a slow reader would delay the *next request*
    // beyond the server's read time-out, which is the client's fault, not the server's
    let pause = if c.mode == 2 { 0 } else { c.read_pause_ms };
    let mut buf = vec![0u8; c.read_chunk];
    loop {
        if let Some(u) = until {
            if result.lock().unwrap().received.len() >= u {
                return;
            }
        }
        let _ = s.set_read_timeout(Some(patience));
        let r = s.read(&mut buf);
        let mut res = result.lock().unwrap();
        match r {
            Ok(0) => {
                res.eof = true;
                return;
            }
            Ok(n) => res.received.extend(&buf[..n]),
            Err(e) if e.kind() == std::io::ErrorKind::WouldBlock || e.kind() == std::io::ErrorKind::TimedOut => {
                res.timed_out = true;
                return;
            }
            Err(e) => {
                res.read_error = Some(e.to_string());
                return;
            }
        }
        drop(res);
        if pause > 0 {
            simrt::thread::sleep(Duration::from_millis(pause));
        }
    }
}

/// Client writer: puts `plan.stream[from..to]` on the wire in the client's segments and
/// pauses; false if the connection was closed by the peer or the client's fault point is reached.
fn client_write_b(s: &mut simrt::net::TcpStream, c: &TcpClient, plan: &TcpPlan, from: usize, to: usize, seg_i: &mut usize, msg_elapsed: &mut u64, budget_ms: u64) -> bool {
    use std::io::Write;
    let mut off = from;
    while off < to {
        if c.fault != 0 && off >= c.fault_after {
            return false;
        }
        let mut n = c.segs[*seg_i % c.segs.len()].min(to - off);
        if c.fault != 0 {
            n = n.min(c.fault_after.saturating_sub(off).max(1));
        }
        if n < to - off {
            simrt::count_fault(Fault::TcpSegmentSplit);
        }
        if s.write_all(&plan.stream[off..off + n]).is_err() {
            return false; // EPIPE after the server has (legitimately) closed
        }
        let before = off;
        off += n;
        // a write that carries the last octet of a message starts the next message's clock
        // (also when it already carries the head of that next message)
        if plan.msg_ends.iter().any(|e| *e > before && *e <= off) {
            *msg_elapsed = 0;
        }
        let pause = c.pauses_ms[*seg_i % c.pauses_ms.len()];
        *seg_i += 1;
        // keep every message within 80 % of the server's (measured) read time-out
        if pause > 0 && *msg_elapsed + pause <= budget_ms {
            *msg_elapsed += pause;
            simrt::count_fault(Fault::TcpDelay);
            simrt::thread::sleep(Duration::from_millis(pause));
        }
    }
    true
}

/// Prints the measured constants (for the evidence and for debugging).
pub fn calibration_summary() -> String {
    format!(
        "blocking: read time-out {} ms, idle shutdown {} ms; tokio: read time-out {} ms, idle shutdown {} ms",
        READ_TIMEOUT_MS[0].load(SeqCst), IDLE_SHUTDOWN_MS[0].load(SeqCst), READ_TIMEOUT_MS[1].load(SeqCst), IDLE_SHUTDOWN_MS[1].load(SeqCst)
    )
}
