//! C25 – `$INCLUDE` behaves like textual inclusion with origin scoping.
//!
//! Real code: `zone_file::fs::Parser` (include stack, path resolution, depth
//! limit, context hand-over) over the simulated file system; the single-stream
//! `zone_file::Parser` (real code) serves as the oracle for *record* syntax on
//! the flattened text, include semantics are the harness's own model.
use crate::driver::{world_cfg, Prop, Tier};
use crate::util::{chance, pick, range, viol, SplitMix};
use quandary::zone_file::fs::error::ErrorKind;
use quandary::zone_file::{LineContent, Parser as StreamParser};
use quandary_simrt as simrt;
use serde::{Deserialize, Serialize};
use simrt::sched::{ClockPolicy, ExecPlan, ExecRecord, Strategy};
use simrt::{Fault, FaultCfg};
use std::collections::BTreeMap;
use std::path::{Component, Path, PathBuf};

#[derive(Clone, Debug, Serialize, Deserialize)]
pub struct FileSpec {
    pub path: String,
    pub lines: Vec<String>,
    /// 0 regular | 1 missing | 2 directory | 3 EIO after `at` octets
    pub fault: u8,
    pub at: usize,
}
#[derive(Clone, Debug, Serialize, Deserialize)]
pub struct Scn {
    pub files: Vec<FileSpec>,
    pub max_depth: usize,
    pub short_reads: bool,
    /// odd-path scenario: (the path as spelled in the directive - quotes, escapes -, hex of the
    /// octets it denotes, relative to the root file's directory, optional origin argument)
    #[serde(default)]
    pub odd_path: Option<(String, String, Option<String>)>,
}
pub struct C25;

/// Stack the parser may use between its shallowest and deepest file-system call. Nesting is
/// limited to 16 files; a frame of `fs::Parser::next` plus the record parser below it is a few
/// hundred octets, so 64 KiB is generous - and far below what a stack that grows with the *number*
/// of includes needs for a few hundred of them.
const STACK_BOUND: usize = 64 << 10;

const DIRS: &[&str] = &["/zones", "/zones/sub", "/zones/sub/deep", "/other"];
const ORIGINS: &[&str] = &["example.", "sub.example.", "other.test.", "deep.sub.example."];

fn norm(p: &Path) -> PathBuf {
    let mut out = PathBuf::new();
    for c in p.components() {
        match c {
            Component::ParentDir => {
                out.pop();
            }
            Component::CurDir => {}
            c => out.push(c.as_os_str()),
        }
    }
    out
}

fn gen_record(r: &mut SplitMix, first: bool) -> String {
    let owner = if first {
        pick(r, &["@", "www", "abs.example.", "a.b"]).to_string()
    } else {
        pick(r, &["@", "www", "mail", "abs.example.", "a.b", "", "", "x.other.test."]).to_string()
    };
    let ttl_class = match r.below(6) {
        0 => "",
        1 => "IN",
        2 => "600",
        3 => "600 IN",
        4 => "IN 900",
        _ => "",
    };
    let data = match r.below(6) {
        0 => format!("A 192.0.2.{}", r.below(250)),
        1 => format!("TXT \"t{}\"", r.below(1000)),
        2 => format!("NS ns{}", r.below(5)),
        3 => format!("MX {} mx{}.rel", r.below(50), r.below(5)),
        4 => "CNAME target.abs.example.".to_string(),
        _ => format!("AAAA 2001:db8::{:x}", r.below(0xffff)),
    };
    let lead = if owner.is_empty() { " ".to_string() } else { format!("{owner} ") };
    format!("{lead}{ttl_class} {data}")
}

impl Prop for C25 {
    const ID: &'static str = "C25";
    type Scn = Scn;
    fn runs(tier: Tier) -> u64 {
        match tier {
            Tier::Quick => 400_000,
            Tier::Thorough => 50_000_000,
        }
    }
    fn gen(r: &mut SplitMix, _t: Tier, _i: u64) -> Scn {
        let nfiles = range(r, 1, 6) as usize;
        let paths: Vec<String> = (0..nfiles).map(|i| format!("{}/f{}.zone", if i == 0 { DIRS[0] } else { *pick(r, DIRS) }, i)).collect();
        let mut files = vec![];
        for i in 0..nfiles {
            let mut lines = vec![];
            if i == 0 {
                lines.push(format!("$ORIGIN {}", ORIGINS[0]));
                if chance(r, 60) {
                    lines.push("$TTL 300".to_string());
                    lines.push("@ IN SOA ns hostmaster 1 60 60 60 60".to_string());
                } else {
                    // no default TTL in effect: omitted TTLs fall back on the previous record's
                    lines.push(String::new());
                    lines.push("@ 450 IN SOA ns hostmaster 1 60 60 60 60".to_string());
                }
            }
            let n = range(r, 1, 7);
            let mut first = i != 0 && chance(r, 50);
            for _ in 0..n {
                match r.below(12) {
                    0 => lines.push(format!("$ORIGIN {}", pick(r, ORIGINS))),
                    1 => lines.push(format!("$TTL {}", range(r, 1, 9) * 100)),
                    2 => lines.push("; a comment".to_string()),
                    3 => lines.push(String::new()),
                    4..=6 if nfiles > 1 => {
                        // include another file (cycles and self-inclusion allowed: the depth limit ends them)
                        let t = if chance(r, 85) { range(r, 1, nfiles as u64 - 1) as usize } else { r.below(nfiles as u64) as usize };
                        let target = Path::new(&paths[t]);
                        let here = Path::new(&paths[i]).parent().unwrap();
                        // relative form when the target lies in or below the includer's directory or one level up
                        let written = if let Ok(rel) = target.strip_prefix(here) {
                            if chance(r, 80) { rel.display().to_string() } else { paths[t].clone() }
                        } else if let (Some(up), true) = (here.parent(), chance(r, 70)) {
                            match target.strip_prefix(up) {
                                Ok(rel) => format!("../{}", rel.display()),
                                Err(_) => paths[t].clone(),
                            }
                        } else {
                            paths[t].clone()
                        };
                        // presentation variants of the directive: quoted path, tabs, trailing comment
                        let path_txt = if chance(r, 25) { format!("\"{written}\"") } else { written.clone() };
                        let sep = if chance(r, 20) { "\t" } else { " " };
                        let tail = if chance(r, 20) { " ; included here" } else { "" };
                        let kw = *pick(r, &["$INCLUDE", "$INCLUDE", "$INCLUDE", "$include", "$Include"]);
                        if chance(r, 40) {
                            lines.push(format!("{kw}{sep}{path_txt}{sep}{}{tail}", pick(r, ORIGINS)));
                        } else {
                            lines.push(format!("{kw}{sep}{path_txt}{tail}"));
                        }
                    }
                    _ => {
                        lines.push(gen_record(r, first));
                        first = false;
                    }
                }
            }
            files.push(FileSpec { path: paths[i].clone(), lines, fault: 0, at: 0 });
        }
        if nfiles > 1 && chance(r, 25) {
            let i = range(r, 1, nfiles as u64 - 1) as usize;
            files[i].fault = range(r, 1, 3) as u8;
            files[i].at = range(r, 0, 120) as usize;
        }
        if chance(r, 2) {
            // a file name that needs quoting or escapes in the directive, including octets that are
            // not UTF-8 (a Latin-1 name): the directive denotes octets, and the file with exactly
            // those octets as its name must be opened
            let spellings: &[(&str, &[u8])] = &[
                    ("\"sub/my hosts.zone\"", b"sub/my hosts.zone"),
                    ("sub/my\\ hosts.zone", b"sub/my hosts.zone"),
                    ("sub/caf\\233.zone", b"sub/caf\xe9.zone"),
                    ("\"sub/caf\\233 hosts.zone\"", b"sub/caf\xe9 hosts.zone"),
                    ("sub/\\099afe.zone", b"sub/cafe.zone"),
                    ("\"sub/semi;colon.zone\"", b"sub/semi;colon.zone"),
                    ("sub/\\255\\254.zone", b"sub/\xff\xfe.zone"),
            ];
            let (text, octets) = *pick(r, spellings);
            let origin = if chance(r, 50) { Some(pick(r, ORIGINS).to_string()) } else { None };
            return Scn { files: vec![], max_depth: *pick(r, &[1usize, 4, 16]), short_reads: chance(r, 30), odd_path: Some((text.to_string(), crate::util::hex(octets), origin)) };
        }
        if chance(r, 2) {
            // many *consecutive* includes of files that hold no record (comments, blank lines, a
            // directive): textual inclusion yields nothing for them; the parser must get through
            // them in bounded stack, however many there are
            // (at most 200: a parser whose stack grows with their number must be reported, not crash the check)
            let k = *pick(r, &[40usize, 100, 200, 200]);
            let empty = match r.below(3) {
                0 => vec![],
                1 => vec!["; nothing here".to_string(), String::new()],
                _ => vec![format!("$ORIGIN {}", pick(r, ORIGINS)), "; only a directive".to_string()],
            };
            let mut lines = vec![format!("$ORIGIN {}", ORIGINS[0]), "$TTL 300".to_string(), "@ IN SOA ns hostmaster 1 60 60 60 60".to_string()];
            for i in 0..k {
                lines.push(if i % 7 == 3 { format!("$INCLUDE e.zone {}", pick(r, ORIGINS)) } else { "$INCLUDE e.zone".to_string() });
            }
            lines.push("tail A 192.0.2.1".to_string());
            let files = vec![
                FileSpec { path: format!("{}/f0.zone", DIRS[0]), lines, fault: 0, at: 0 },
                FileSpec { path: format!("{}/e.zone", DIRS[0]), lines: empty, fault: 0, at: 0 },
            ];
            return Scn { files, max_depth: *pick(r, &[1usize, 4, 16]), short_reads: chance(r, 30), odd_path: None };
        }
        Scn { files, max_depth: *pick(r, &[0usize, 1, 2, 3, 4, 4, 16]), short_reads: chance(r, 30), odd_path: None }
    }
    fn plan(r: &mut SplitMix, _s: &Scn) -> ExecPlan {
        ExecPlan { seed: r.next(), strategy: Strategy::Random, clock: ClockPolicy::Des, max_steps: 100_000 }
    }
    fn run(scn: &Scn) {
        run(scn)
    }
    fn shrink(s: &Scn) -> Vec<Scn> {
        let mut out = vec![];
        for i in 0..s.files.len() {
            for j in 0..s.files[i].lines.len() {
                if i == 0 && j < 3 {
                    continue;
                }
                let mut c = s.clone();
                c.files[i].lines.remove(j);
                out.push(c);
            }
            if s.files[i].fault != 0 {
                let mut c = s.clone();
                c.files[i].fault = 0;
                out.push(c);
            }
        }
        if s.short_reads {
            let mut c = s.clone();
            c.short_reads = false;
            out.push(c);
        }
        out
    }
    fn nontrivial(s: &Scn, _r: &ExecRecord) -> bool {
        s.files.iter().any(|f| f.lines.iter().any(|l| l.len() >= 8 && l[..8].eq_ignore_ascii_case("$INCLUDE")))
    }
    fn case_hash(s: &Scn, _r: &ExecRecord) -> u64 {
        let mut h = 0xcbf29ce484222325u64;
        for b in serde_json::to_string(s).unwrap_or_default().bytes() {
            h = (h ^ b as u64).wrapping_mul(0x100000001b3);
        }
        h
    }
    fn rule() -> String {
        "one execution = one tree of 1-6 zone files in up to 4 directories with $INCLUDE directives (with/without origin; relative, ../ and absolute paths; cycles and self-inclusion), $ORIGIN/$TTL inside included files, records that depend on inherited context (omitted owner, omitted TTL/class in both orders, relative names, @), with or without a $TTL default in effect, depth limit 0-16, optionally one include target missing / a directory / failing with EIO after k octets, optional short reads; compared record by record (path, line, owner, TTL, class, type, RDATA) with the harness's flattening model. Non-trivial = the tree contains at least one $INCLUDE; distinct = distinct scenario".into()
    }
    fn assumptions() -> Vec<String> {
        vec![
            "record syntax is judged by the repository's own single-stream parser on the flattened text (include semantics are the model's)".into(),
            "after an EIO inside an included file the records already yielded must be a prefix of the fault-free sequence, at least everything before that file was entered and at most everything that lies wholly before the failing octet".into(),
            "generated record lines are single physical lines (multi-line records are C24's business)".into(),
        ]
    }
    fn real_components() -> Vec<&'static str> {
        vec!["src/zone_file/fs/mod.rs", "src/zone_file/mod.rs (new_for_include, update_context_from_include)", "src/zone_file/{reader,record,directive,name}.rs"]
    }
    fn stub_components() -> Vec<&'static str> {
        vec!["std::fs::File -> simrt::fs::File (in-memory tree, ENOENT / EISDIR / EIO / short-read faults)"]
    }
    fn engine() -> &'static str {
        "E3 simrt-sequential"
    }
    fn expected_probes() -> Vec<&'static str> {
        vec!["c25_nested_include", "c25_include_with_origin", "c25_too_deep", "c25_open_failed", "c25_io_error_in_include", "c25_context_inherited_record", "c25_parent_dir_path"]
    }
}

#[derive(Debug, Clone, PartialEq)]
enum ModelErr {
    TooDeep { path: PathBuf, line: usize },
    OpenFailed { includer: PathBuf, line: usize, target: PathBuf },
    Io { path: PathBuf },
}
#[derive(Clone, Debug)]
struct FLine {
    text: String,
    path: PathBuf,
    line: usize,
}
struct Model {
    files: BTreeMap<PathBuf, std::rc::Rc<FileSpec>>,
    max_depth: usize,
    out: Vec<FLine>,
    /// for an EIO: number of flattened lines emitted before the failing file was entered
    io_lower: Option<usize>,
}
impl Model {
    fn flatten(&mut self, path: &Path, depth: usize, origin: &mut String) -> Result<(), ModelErr> {
        let spec = self.files.get(path).expect("model: file exists").clone();
        let mut offset = 0usize;
        for (i, l) in spec.lines.iter().enumerate() {
            let line_no = i + 1;
            let end = offset + l.len() + 1;
            if spec.fault == 3 && end > spec.at {
                // the failing octet lies in this line: nothing from here on can be yielded
                return Err(ModelErr::Io { path: path.to_path_buf() });
            }
            offset = end;
            if let Some(o) = l.strip_prefix("$ORIGIN ") {
                *origin = o.trim().to_string();
                self.out.push(FLine { text: l.clone(), path: path.to_path_buf(), line: line_no });
            } else if l.len() >= 8 && l[..8].eq_ignore_ascii_case("$INCLUDE") {
                let rest = &l[8..];
                // the model's own reading of the directive: optional quotes around the path,
                // blanks or tabs between fields, an optional origin, an optional comment
                let rest = rest.split(';').next().unwrap_or("");
                let mut it = rest.split_whitespace();
                let target_txt = it.next().expect("include path").trim_matches('"');
                let inc_origin = it.next();
                if depth >= self.max_depth {
                    return Err(ModelErr::TooDeep { path: path.to_path_buf(), line: line_no });
                }
                // the path resolves against the *including file's* directory
                let resolved = path.parent().expect("parent").join(target_txt);
                if target_txt.starts_with("../") {
                    simrt::probe("c25_parent_dir_path");
                }
                let key = norm(&resolved);
                let Some(t) = self.files.get(&key).cloned() else { panic!("harness: include target not in tree") };
                match t.fault {
                    1 => return Err(ModelErr::OpenFailed { includer: path.to_path_buf(), line: line_no, target: resolved }),
                    2 => return Err(ModelErr::Io { path: resolved }),
                    _ => {}
                }
                if depth >= 1 {
                    simrt::probe("c25_nested_include");
                }
                if let Some(o) = inc_origin {
                    simrt::probe("c25_include_with_origin");
                    self.out.push(FLine { text: format!("$ORIGIN {o}"), path: path.to_path_buf(), line: line_no });
                }
                let mut inner_origin = inc_origin.map(|s| s.to_string()).unwrap_or_else(|| origin.clone());
                if t.fault == 3 && self.io_lower.is_none() {
                    self.io_lower = Some(self.out.len());
                }
                // the model keeps the *textual* path the parser will report
                let before = self.out.len();
                let r = self.flatten_as(&key, &resolved, depth + 1, &mut inner_origin);
                let _ = before;
                r?;
                // the includer's origin is restored
                self.out.push(FLine { text: format!("$ORIGIN {origin}"), path: path.to_path_buf(), line: line_no });
            } else {
                self.out.push(FLine { text: l.clone(), path: path.to_path_buf(), line: line_no });
            }
        }
        if spec.fault == 3 {
            // the error strikes at or after the last line: still an I/O error before EOF is seen
            return Err(ModelErr::Io { path: path.to_path_buf() });
        }
        Ok(())
    }
    /// Same as `flatten`, but lines are attributed to the path as the parser spells it
    /// (includer's directory joined with the written path, not normalised).
    fn flatten_as(&mut self, key: &Path, spelled: &Path, depth: usize, origin: &mut String) -> Result<(), ModelErr> {
        let spec = self.files.get(key).expect("model: file exists").clone();
        let alias = FileSpec { path: spelled.display().to_string(), ..(*spec).clone() };
        // temporarily register the spelled path
        let had = self.files.insert(spelled.to_path_buf(), std::rc::Rc::new(alias));
        let r = self.flatten(spelled, depth, origin);
        match had {
            Some(h) => {
                self.files.insert(spelled.to_path_buf(), h);
            }
            None => {
                if spelled != key {
                    self.files.remove(spelled);
                }
            }
        }
        r
    }
}

type Rec = (PathBuf, usize, String, u32, u16, u16, Vec<u8>);

fn parse_flat(lines: &[FLine]) -> Result<Vec<Rec>, String> {
    let text: String = lines.iter().map(|l| format!("{}\n", l.text)).collect();
    let mut out = vec![];
    for item in StreamParser::new(std::io::Cursor::new(text.into_bytes())) {
        match item {
            Ok(line) => match line.content {
                LineContent::Record(rr) => {
                    let src = &lines[line.number - 1];
                    if rr.owner.to_string() != rr.owner.to_string() {
                        unreachable!();
                    }
                    out.push((src.path.clone(), src.line, rr.owner.to_string(), u32::from(rr.ttl), u16::from(rr.class), u16::from(rr.rr_type), rr.rdata.octets().to_vec()));
                }
                LineContent::Include(_) => return Err("flattened text still contains an $INCLUDE".into()),
            },
            Err(e) => return Err(format!("flattened text does not parse: {e}")),
        }
    }
    Ok(out)
}

/// The odd-path scenario: a fixed two-file tree whose include path needs quoting or escapes.
fn run_odd_path(scn: &Scn, text: &str, octets_hex: &str, origin: &Option<String>) {
    use std::os::unix::ffi::OsStringExt;
    let faults = if scn.short_reads { FaultCfg::none().with(Fault::FsShortRead, 400) } else { FaultCfg::none() };
    simrt::start(world_cfg(9, faults));
    simrt::probe("c25_odd_path_spelling");
    use simrt::fs;
    fs::mkdir("/zones");
    fs::mkdir("/zones/sub");
    let rel = PathBuf::from(std::ffi::OsString::from_vec(crate::util::unhex(octets_hex)));
    let inc_path = Path::new("/zones").join(&rel);
    let root = PathBuf::from("/zones/f0.zone");
    let directive = match origin {
        Some(o) => format!("$INCLUDE {text} {o} ; odd spelling"),
        None => format!("$INCLUDE {text}"),
    };
    fs::write(&root, format!("$ORIGIN example.\n$TTL 300\n@ IN SOA ns hostmaster 1 60 60 60 60\n{directive}\nafter A 192.0.2.9\n").as_bytes());
    fs::write(&inc_path, b"inc A 192.0.2.1\n  A 192.0.2.2\n");
    // textual inclusion: the included lines under the directive's origin (or the includer's)
    let o = origin.clone().unwrap_or_else(|| "example.".to_string());
    let o_abs = if o.ends_with('.') { o.clone() } else { format!("{o}.example.") };
    let expected: Vec<(PathBuf, usize, String, u16, Vec<u8>)> = vec![
        (root.clone(), 3, "example.".into(), 6, vec![]),
        (inc_path.clone(), 1, format!("inc.{o_abs}"), 1, vec![192, 0, 2, 1]),
        (inc_path.clone(), 2, format!("inc.{o_abs}"), 1, vec![192, 0, 2, 2]),
        (root.clone(), 5, "after.example.".into(), 1, vec![192, 0, 2, 9]),
    ];
    let mut got = vec![];
    match quandary::zone_file::fs::Parser::open(&root, scn.max_depth) {
        Err(e) => viol("root-open-failed", format!("{e}")),
        Ok(parser) => {
            for item in parser {
                match item {
                    Ok(l) => got.push((l.path.to_path_buf(), l.number, l.record.owner.to_string().to_ascii_lowercase(), u16::from(l.record.rr_type), if u16::from(l.record.rr_type) == 6 { vec![] } else { l.record.rdata.octets().to_vec() })),
                    Err(e) => {
                        viol("unexpected-error", format!("directive `{directive}` (file name octets {octets_hex}): {e}"));
                        break;
                    }
                }
            }
        }
    }
    if !crate::util::has_violation() && got != expected {
        viol("records-differ-from-textual-inclusion", format!("directive `{directive}` (file name octets {octets_hex}): parser gave {got:?}, textual inclusion gives {expected:?}"));
    }
    simrt::finish();
}

fn run(scn: &Scn) {
    if let Some((text, octets_hex, origin)) = &scn.odd_path {
        return run_odd_path(scn, text, octets_hex, origin);
    }
    let faults = if scn.short_reads { FaultCfg::none().with(Fault::FsShortRead, 400) } else { FaultCfg::none() };
    simrt::start(world_cfg(9, faults));
    use simrt::fs;
    for d in DIRS {
        fs::mkdir(d);
    }
    let mut tree = BTreeMap::new();
    for f in &scn.files {
        let text: String = f.lines.iter().map(|l| format!("{l}\n")).collect();
        match f.fault {
            1 => {}
            2 => fs::mkdir(&f.path),
            3 => {
                fs::write(&f.path, text.as_bytes());
                fs::set_eio(&f.path, Some(f.at.min(text.len())));
            }
            _ => fs::write(&f.path, text.as_bytes()),
        }
        tree.insert(PathBuf::from(&f.path), std::rc::Rc::new(f.clone()));
    }
    // --- model ----------------------------------------------------------------------------
    let root = PathBuf::from(&scn.files[0].path);
    let mut model = Model { files: tree, max_depth: scn.max_depth, out: vec![], io_lower: None };
    let mut origin = String::new();
    let model_err = model.flatten(&root, 0, &mut origin).err();
    let upper = match parse_flat(&model.out) {
        Ok(r) => r,
        Err(e) => {
            // a generated tree whose flattening is not valid zone text (e.g. an omitted owner with
            // nothing before it) tells nothing about $INCLUDE: skip it
            simrt::probe("c25_skipped_invalid_flattening");
            let _ = e;
            simrt::finish();
            return;
        }
    };
    let lower_len = match (&model_err, model.io_lower) {
        (Some(ModelErr::Io { .. }), Some(n)) => parse_flat(&model.out[..n]).map(|r| r.len()).unwrap_or(0),
        _ => upper.len(),
    };
    // --- real parser --------------------------------------------------------------------------
    let mut got: Vec<Rec> = vec![];
    let mut got_err = None;
    let parser = match quandary::zone_file::fs::Parser::open(&root, scn.max_depth) {
        Ok(p) => p,
        Err(e) => {
            viol("root-open-failed", format!("{e}"));
            simrt::finish();
            return;
        }
    };
    let mut after_error = 0;
    fs::reset_stack_extent();
    for item in parser {
        if got_err.is_some() {
            after_error += 1;
            continue;
        }
        match item {
            Ok(l) => got.push((l.path.to_path_buf(), l.number, l.record.owner.to_string(), u32::from(l.record.ttl), u16::from(l.record.class), u16::from(l.record.rr_type), l.record.rdata.octets().to_vec())),
            Err(e) => got_err = Some(e),
        }
    }
    if after_error > 0 {
        viol("items-after-error", format!("{after_error} items yielded after the first error"));
    }
    // stack used by the parser, as seen from the file-system seam at the bottom of its call chains
    let includes = scn.files[0].lines.iter().filter(|l| l.to_ascii_uppercase().starts_with("$INCLUDE")).count();
    let extent = fs::stack_extent();
    if std::env::var_os("VERIF_C25_STACK").is_some() {
        eprintln!("c25 stack extent {extent} octets for {includes} include lines in the root, max_depth {}", scn.max_depth);
    }
    if includes >= 40 {
        simrt::probe("c25_many_consecutive_includes");
        if extent > STACK_BOUND {
            viol("stack-grows-with-number-of-includes", format!("{extent} octets of stack between the shallowest and the deepest file-system call while parsing a root file with {includes} consecutive $INCLUDEs of a record-less file (nesting limit {}); bound {STACK_BOUND}", scn.max_depth));
        }
    }
    if upper.iter().any(|r| r.0 != root) && got.len() == upper.len() {
        simrt::probe("c25_context_inherited_record");
    }
    // --- compare ---------------------------------------------------------------------------------
    let prefix_ok = got.len() <= upper.len() && got.iter().zip(&upper).all(|(a, b)| a == b);
    if !prefix_ok {
        let i = got.iter().zip(&upper).position(|(a, b)| a != b).unwrap_or(got.len().min(upper.len()));
        viol(
            "records-differ-from-textual-inclusion",
            format!("record {i}: parser gave {:?}, textual inclusion gives {:?} ({} vs {} records); files {:?}", got.get(i), upper.get(i), got.len(), upper.len(), scn.files),
        );
    } else {
        match (&model_err, &got_err) {
            (None, None) => {
                if got.len() != upper.len() {
                    viol("records-missing", format!("{} of {} records yielded without an error; files {:?}", got.len(), upper.len(), scn.files));
                }
            }
            (None, Some(e)) => viol("unexpected-error", format!("{e}; files {:?}", scn.files)),
            (Some(m), None) => viol("expected-error-missing", format!("model expects {m:?}, parser finished normally; files {:?}", scn.files)),
            (Some(m), Some(e)) => {
                let ok = match (m, e.kind()) {
                    (ModelErr::TooDeep { path, line }, ErrorKind::IncludesTooDeep(d)) => {
                        simrt::probe("c25_too_deep");
                        e.path() == path && d.line() == *line && got.len() == upper.len()
                    }
                    (ModelErr::OpenFailed { includer, line, target }, ErrorKind::FailedToOpenInclude(d)) => {
                        simrt::probe("c25_open_failed");
                        e.path() == includer && d.line() == *line && d.path() == target.as_path() && got.len() == upper.len()
                    }
                    (ModelErr::Io { path }, ErrorKind::GeneralIo(_)) => {
                        simrt::probe("c25_io_error_in_include");
                        e.path() == path && got.len() >= lower_len
                    }
                    _ => false,
                };
                if !ok {
                    viol("wrong-error", format!("model expects {m:?} after {}..={} records; parser gave '{e}' (path {:?}) after {} records; files {:?}", lower_len, upper.len(), e.path(), got.len(), scn.files));
                }
            }
        }
    }
    simrt::finish();
}
