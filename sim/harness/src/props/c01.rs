//! C01 – the server survives every possible request without panicking.
//!
//! Engine E4: fault enumeration at the transport seam. The boundary between
//! the I/O providers and the server is `Server::handle_message(bytes, info,
//! buf)`; every request shape the simulated clients of the other checks put on
//! the wire is subjected, one at a time and exhaustively, to every fault the
//! wire or a buffer can apply to it (truncation to every length, substitution
//! at every offset, count bumps, junk appended, tail duplicated), plus seeded
//! random pairs, on both transports and over a set of server configurations.
use crate::driver::{world_cfg, Prop, Tier};
use crate::qz::{self, Cat};
use crate::tsigref::{self, Alg, SignSpec};
use crate::util::{viol, SplitMix};
use crate::wire;
use quandary::class::Class;
use quandary::db::catalog::Entry;
use quandary::message::tsig::Algorithm;
use quandary::server::{ReceivedInfo, RrlParams, Server, Transport, TsigKeyMap};
use quandary_simrt as simrt;
use serde::{Deserialize, Serialize};
use simrt::sched::{ClockPolicy, ExecPlan, ExecRecord, Strategy};
use simrt::{Fault, FaultCfg};
use std::net::{IpAddr, Ipv4Addr};
use std::sync::Arc;

#[derive(Clone, Debug, Serialize, Deserialize)]
pub struct Scn {
    pub msg: usize,
    pub cfg: usize,
    pub pair_seed: u64,
    pub pairs: usize,
    /// replay of one failing input: hex of the request, transport
    pub only: Option<(String, bool)>,
}
pub struct C01;

pub const N_CFG: usize = 10;
const N_SHAPES: usize = 27;
const QNAMES: &[&str] = &[
    "www.example.", "example.", "WwW.ExAmPlE.", "nosuch.example.", "x.wild.example.", "alias.example.", "chain1.example.", "deep.sub.example.", "big.example.",
    "glue.test.", "deleg.glue.test.", "x.deleg.glue.test.", "y.glue.test.", "badns.example.", "badmx.example.", "badcname.example.", "badsrv.example.", "bada.example.", "badsoa.test.", "x.nosoa.test.", "nosoa.test.", "unloaded.test.", "failed.test.", "www.elsewhere.", ".",
    // owners whose RDATA points *out of the zone* to a name with fewer labels than the apex
    "up.glue.test.", "root.glue.test.", "mxup.glue.test.", "srvroot.glue.test.", "nsup.glue.test.", "x.nsup.glue.test.", "toroot.example.", "tosib.example.",
];
const QTYPES: &[u16] = &[wire::T_A, wire::T_ANY, wire::T_MX, wire::T_NS, wire::T_SOA, wire::T_TXT, wire::T_CNAME, 33, 252, 251, wire::T_AAAA];

fn secret() -> Vec<u8> {
    (0..32u8).collect()
}
fn long_name(tag: u8) -> wire::Name {
    // 255 octets on the wire: 3 labels of 63 + one of 61
    let mut n = vec![vec![b'a' + tag; 63], vec![b'b'; 63], vec![b'c'; 63], vec![b'd'; 61]];
    n[0][0] = b'k';
    n
}

/// The request corpus: index -> message (before any fault).
pub fn base_message(i: usize) -> Vec<u8> {
    let shape = i % N_SHAPES;
    let v = i / N_SHAPES;
    let qn = wire::name(QNAMES[(v * 7 + shape) % QNAMES.len()]);
    let qt = QTYPES[(v * 3 + shape) % QTYPES.len()];
    let id = 0x4000 + i as u16;
    let now = simrt::time::wall_secs();
    let sign = |msg: &[u8], key: wire::Name, alg_name: wire::Name, mac_len: Option<usize>| -> Vec<u8> { tsigref::sign_request(msg, &SignSpec { key_name: key, alg: Alg::Sha256, alg_name, secret: secret(), time: now, fudge: 300, mac_len }).0 };
    match shape {
        0 => wire::query_full(id, &qn, qt, wire::C_IN, 0x0100, None),
        1 => wire::query_full(id, &qn, qt, wire::C_IN, 0, Some(1232)),
        2 => {
            let mut m = wire::Msg { id, flags: 0, ..Default::default() };
            m.questions.push(wire::Question { qname: qn, qtype: qt, qclass: wire::C_IN });
            m.additional.push(wire::opt_rr(4096, (v % 2) as u8, 0x8000, &[0, 10, 0, 8, 1, 2, 3, 4, 5, 6, 7, 8, 0, 12, 0, 3, 0, 0, 0]));
            wire::encode(&m)
        }
        3 => sign(&wire::query_full(id, &qn, qt, wire::C_IN, 0, None), wire::name("k.example."), Alg::Sha256.name(), None),
        4 => sign(&wire::query_full(id, &qn, qt, wire::C_IN, 0, Some(512)), wire::name("unknown.key."), Alg::Sha256.name(), Some(16)),
        5 => sign(&wire::query_full(id, &long_name(0), qt, wire::C_IN, 0, None), long_name(1), long_name(2), None),
        6 => sign(&wire::query_full(id, &qn, qt, wire::C_IN, 0, Some(1232)), long_name(1), Alg::Sha256.name(), None),
        7 => {
            // extra records in every section, owners compressed against the question
            let mut out = wire::query_full(id, &qn, qt, wire::C_IN, 0, None);
            out[6..8].copy_from_slice(&1u16.to_be_bytes());
            out[8..10].copy_from_slice(&1u16.to_be_bytes());
            out[10..12].copy_from_slice(&2u16.to_be_bytes());
            for (t, rd) in [(wire::T_A, vec![1u8, 2, 3, 4]), (wire::T_NS, vec![0xc0, 12]), (wire::T_TXT, vec![3, b'a', b'b', b'c'])] {
                out.extend([0xc0, 12]);
                out.extend(t.to_be_bytes());
                out.extend(wire::C_IN.to_be_bytes());
                out.extend(60u32.to_be_bytes());
                out.extend((rd.len() as u16).to_be_bytes());
                out.extend(rd);
            }
            let opt = wire::opt_rr(1232, 0, 0, &[]);
            out.push(0);
            out.extend(opt.rtype.to_be_bytes());
            out.extend(opt.class.to_be_bytes());
            out.extend(opt.ttl.to_be_bytes());
            out.extend(0u16.to_be_bytes());
            out
        }
        8 => {
            // QCLASS CH: the first variants ask the malformed name-bearing RRsets of the CH zones
            // for exactly their type, the later ones sweep names and types like the other shapes
            const CH_PAIRS: &[(&str, u16)] = &[("badsrv.example.", 33), ("badmx.example.", wire::T_MX), ("badns.example.", wire::T_NS), ("badcname.example.", wire::T_A), ("example.", wire::T_MX), ("x.sub.example.", wire::T_A), ("alias.example.", wire::T_A), ("bada.example.", wire::T_ANY), ("example.", wire::T_ANY), ("badsrv.example.", wire::T_ANY)];
            match CH_PAIRS.get(v) {
                Some((n, t)) => wire::query_full(id, &wire::name(n), *t, wire::C_CH, 0, if v % 2 == 0 { None } else { Some(1232) }),
                None => wire::query_full(id, &qn, qt, wire::C_CH, 0, None),
            }
        }
        9 => wire::query_full(id, &qn, qt, wire::C_ANY, 0, None),
        10 => wire::query_full(id, &qn, wire::T_SOA, wire::C_IN, ((v % 16) as u16) << 11, None),
        11 => {
            // NOTIFY with an SOA in the answer section
            let mut m = wire::Msg { id, flags: 4 << 11 | 0x0400, ..Default::default() };
            m.questions.push(wire::Question { qname: wire::name("example."), qtype: wire::T_SOA, qclass: wire::C_IN });
            m.answers.push(wire::Rr { owner: wire::name("example."), rtype: wire::T_SOA, class: wire::C_IN, ttl: 60, rdata: wire::soa_rdata("ns.example.", "h.example.", 7), rdata_off: 0, rr_off: 0 });
            wire::encode(&m)
        }
        12 => {
            // UPDATE-shaped message
            let mut m = wire::Msg { id, flags: 5 << 11, ..Default::default() };
            m.questions.push(wire::Question { qname: wire::name("example."), qtype: wire::T_SOA, qclass: wire::C_IN });
            m.authority.push(wire::Rr { owner: wire::name("new.example."), rtype: wire::T_A, class: wire::C_IN, ttl: 60, rdata: vec![10, 9, 8, 7], rdata_off: 0, rr_off: 0 });
            wire::encode(&m)
        }
        13 => {
            // two questions
            let mut m = wire::Msg { id, flags: 0, ..Default::default() };
            m.questions.push(wire::Question { qname: qn.clone(), qtype: qt, qclass: wire::C_IN });
            m.questions.push(wire::Question { qname: qn, qtype: wire::T_AAAA, qclass: wire::C_IN });
            wire::encode(&m)
        }
        14 => {
            // OPT in the answer section, TSIG not last
            let mut m = wire::Msg { id, flags: 0, ..Default::default() };
            m.questions.push(wire::Question { qname: qn, qtype: qt, qclass: wire::C_IN });
            if v % 2 == 0 {
                m.answers.push(wire::opt_rr(1232, 0, 0, &[]));
            } else {
                m.additional.push(wire::Rr { owner: wire::name("k.example."), rtype: wire::T_TSIG, class: 255, ttl: 0, rdata: tsigref::build_rdata(&tsigref::TsigFields { alg_name: Alg::Sha256.name(), time: now, fudge: 300, mac: vec![7; 32], original_id: id, error: 0, other: vec![] }), rdata_off: 0, rr_off: 0 });
                m.additional.push(wire::opt_rr(1232, 0, 0, &[]));
            }
            wire::encode(&m)
        }
        15 => {
            // TSIG with error and other data set, truncated MAC, odd fudge
            let f = tsigref::TsigFields { alg_name: wire::name("hmac-sha1."), time: now + 100_000, fudge: 0, mac: vec![1; 10], original_id: !id, error: 18, other: vec![0, 0, 0, 0, 0, 1] };
            let mut m = wire::Msg { id, flags: 0, ..Default::default() };
            m.questions.push(wire::Question { qname: qn, qtype: qt, qclass: wire::C_IN });
            m.additional.push(wire::Rr { owner: wire::name("k.example."), rtype: wire::T_TSIG, class: 255, ttl: 0, rdata: tsigref::build_rdata(&f), rdata_off: 0, rr_off: 0 });
            wire::encode(&m)
        }
        16 => wire::query_full(id, &long_name(0), qt, wire::C_IN, 0, Some(65535)),
        17 => {
            // header only
            let mut v = vec![0u8; 12];
            v[..2].copy_from_slice(&id.to_be_bytes());
            v
        }
        18 => sign(&wire::query_full(id, &qn, qt, wire::C_IN, 0, Some(1232)), wire::name("K.Example."), Alg::Sha256.name(), Some(10 + v % 23)),
        // question-less requests that still carry pseudo-records
        22 => {
            let mut m = wire::Msg { id, flags: ((v % 3) as u16) << 11, ..Default::default() };
            m.additional.push(wire::opt_rr([1232u16, 512, 4096][v % 3], (v % 3) as u8, if v % 2 == 0 { 0 } else { 0x8000 }, &[]));
            wire::encode(&m)
        }
        23 => {
            let mut m = wire::Msg { id, flags: 0, ..Default::default() };
            if v % 2 == 1 {
                m.additional.push(wire::opt_rr(1232, 0, 0, &[]));
            }
            sign(&wire::encode(&m), wire::name("k.example."), Alg::Sha256.name(), None)
        }
        // answers larger than the negotiated size: big RRsets with a sweep of advertised sizes
        20 | 21 => {
            let (n, t) = [
                ("big.example.", wire::T_TXT), ("glue.test.", wire::T_NS), ("many.example.", wire::T_A), ("glue.test.", wire::T_MX),
                ("x.deleg.glue.test.", wire::T_A), ("many.example.", wire::T_ANY), ("glue.test.", wire::T_ANY), ("big.example.", wire::T_ANY),
            ][v % 8];
            let q = wire::query_full(id, &wire::name(n), t, wire::C_IN, 0, Some(512 + 41 * (v as u16 % 40)));
            if shape == 21 {
                sign(&q, wire::name("k.example."), Alg::Sha256.name(), None)
            } else {
                q
            }
        }
        // answers of more than 16 KiB made of records with names in their RDATA (over TCP they are
        // not truncated): names end up beyond offset 16383, where compression pointers cannot reach
        24 => {
            let (n, t) = [("ptrs.example.", 12u16), ("nss.example.", wire::T_NS), ("ptrs.example.", wire::T_ANY), ("mxs.example.", wire::T_MX)][v % 4];
            wire::query_full(id, &wire::name(n), t, wire::C_IN, 0, if v % 2 == 0 { Some(4096) } else { None })
        }
        // requests signed with the odd keys of the key set (root-named key with an empty secret,
        // 1-octet and 200-octet secrets, both algorithms): valid signatures (25) and extreme
        // time fields - 2^48-1 with fudge 65535, 0 with fudge 65535 - (26)
        25 | 26 => {
            let (kname, alg, sec) = odd_key(v % 3);
            let (time, fudge) = if shape == 25 { (now, 300u16) } else if v % 2 == 0 { ((1u64 << 48) - 1, 65535) } else { (0, 65535) };
            let q = wire::query_full(id, &qn, qt, wire::C_IN, 0, if v % 2 == 0 { None } else { Some(1232) });
            tsigref::sign_request(&q, &SignSpec { key_name: wire::name(kname), alg, alg_name: alg.name(), secret: sec, time, fudge, mac_len: if v % 4 == 3 { Some(10) } else { None } }).0
        }
        _ => wire::query_full(id, &qn, 250 + (v % 6) as u16, wire::C_IN, 0x0200, None),
    }
}
/// The odd members of the key set: (name, algorithm, secret).
fn odd_key(i: usize) -> (&'static str, Alg, Vec<u8>) {
    match i {
        0 => (".", Alg::Sha1, vec![]),
        1 => ("one.example.", Alg::Sha256, vec![0x5a]),
        _ => ("long-secret.example.", Alg::Sha1, (0..200u8).collect()),
    }
}

fn keys() -> Arc<TsigKeyMap> {
    let mut m = TsigKeyMap::new();
    m.insert(qz::qname("k.example."), (Algorithm::HmacSha256, secret().into_boxed_slice()));
    let ln = long_name(1);
    let text: String = ln.iter().map(|l| format!("{}.", String::from_utf8_lossy(l))).collect();
    m.insert(qz::qname(&text), (Algorithm::HmacSha256, secret().into_boxed_slice()));
    for i in 0..3 {
        let (name, alg, sec) = odd_key(i);
        m.insert(qz::qname(name), (if matches!(alg, Alg::Sha1) { Algorithm::HmacSha1 } else { Algorithm::HmacSha256 }, sec.into_boxed_slice()));
    }
    Arc::new(m)
}

/// Built once per process (several thousand records; `add` de-duplicates within an RRset, which
/// is quadratic in its size) and shared: zones are immutable once built.
fn rich_zone() -> Arc<quandary::db::HashMapTreeZone> {
    static Z: std::sync::OnceLock<Arc<quandary::db::HashMapTreeZone>> = std::sync::OnceLock::new();
    Z.get_or_init(build_rich_zone).clone()
}
fn build_rich_zone() -> Arc<quandary::db::HashMapTreeZone> {
    let mut z = qz::ZoneBuilder::new("example.", wire::C_IN);
    z.soa_ns("example.", 1);
    z.add("www.example.", wire::T_A, 60, &[10, 0, 0, 1]);
    z.add("*.wild.example.", wire::T_TXT, 60, &wire::txt_rdata(b"w"));
    z.add("alias.example.", wire::T_CNAME, 60, &wire::name_wire("www.example."));
    for i in 1..9 {
        z.add(&format!("chain{i}.example."), wire::T_CNAME, 60, &wire::name_wire(&format!("chain{}.example.", i + 1)));
    }
    z.add("chain9.example.", wire::T_CNAME, 60, &wire::name_wire("chain1.example."));
    z.add("toroot.example.", wire::T_CNAME, 60, &wire::name_wire("."));
    z.add("tosib.example.", wire::T_CNAME, 60, &wire::name_wire("www.glue.test."));
    z.add("sub.example.", wire::T_NS, 60, &wire::name_wire("ns.sub.example."));
    z.add("ns.sub.example.", wire::T_A, 60, &[10, 0, 0, 53]);
    for i in 0..40u8 {
        z.add("big.example.", wire::T_TXT, 60, &wire::txt_rdata(&vec![b'a' + i % 26; 60 + i as usize % 3]));
    }
    z.add("example.", wire::T_MX, 60, &{
        let mut v = vec![0, 5];
        v.extend(wire::name_wire("www.example."));
        v
    });
    for i in 0..100u8 {
        z.add("many.example.", wire::T_A, 60, &[10, 1, i / 50, i]);
    }
    // RRsets of several hundred records whose RDATA is a name, with labels that repeat from one
    // name to the next in the same position (so the writer keeps finding compression candidates,
    // also beyond the 16 KiB that a pointer can address)
    for i in 0..700u32 {
        z.add("ptrs.example.", 12, 60, &wire::name_wire(&format!("host-{i}.eu.r{}.big.test.", i % 7)));
        z.add("nss.example.", wire::T_NS, 60, &wire::name_wire(&format!("ns-{i}.eu.r{}.big.test.", i % 5)));
        z.add("mxs.example.", wire::T_MX, 60, &{
            let mut v = (i as u16).to_be_bytes().to_vec();
            v.extend(wire::name_wire(&format!("mx-{i}.eu.r{}.big.test.", i % 3)));
            v
        });
    }
    z.finish()
}
/// A zone whose stored RDATA is itself malformed (the zone API accepts any octets).
fn corrupt_zone() -> Arc<quandary::db::HashMapTreeZone> {
    corrupt_zone_in(wire::C_IN)
}
/// The same records in a zone of another class: what counts as structured RDATA (A, AAAA, WKS,
/// SRV) depends on the class, and so does additional-section processing.
fn corrupt_zone_in(class: u16) -> Arc<quandary::db::HashMapTreeZone> {
    let mut z = qz::ZoneBuilder::new("example.", class);
    z.soa_ns("example.", 1);
    z.add("www.example.", wire::T_A, 60, &[10, 0, 0, 1]);
    z.add("badns.example.", wire::T_NS, 60, &[5, b'a', b'b']);
    z.add("badmx.example.", wire::T_MX, 60, &[0]);
    z.add("badcname.example.", wire::T_CNAME, 60, &[0xc0]);
    z.add("badsrv.example.", 33, 60, &[0, 1, 0, 2, 0]);
    z.add("bada.example.", wire::T_A, 60, &[1, 2, 3]);
    z.add("bada.example.", wire::T_AAAA, 60, &[1, 2, 3]);
    z.add("example.", wire::T_MX, 60, &[0, 1, 63]);
    z.add("sub.example.", wire::T_NS, 60, &[0x40, 1]);
    z.add("alias.example.", wire::T_CNAME, 60, &[]);
    z.finish()
}
/// A zone that makes the additional section work hard: many in-zone name servers and mail
/// exchangers with addresses (sibling and nested names), and a delegation with much glue,
/// so that truncation and roll-back happen at every alignment when the advertised size is swept.
fn glue_zone(variant: u64) -> Arc<quandary::db::HashMapTreeZone> {
    static Z: std::sync::OnceLock<std::sync::Mutex<std::collections::HashMap<u64, Arc<quandary::db::HashMapTreeZone>>>> = std::sync::OnceLock::new();
    let cache = Z.get_or_init(Default::default);
    if let Some(z) = cache.lock().unwrap().get(&variant) {
        return z.clone();
    }
    let z = build_glue_zone(variant);
    cache.lock().unwrap().insert(variant, z.clone());
    z
}
fn build_glue_zone(variant: u64) -> Arc<quandary::db::HashMapTreeZone> {
    let mut r = SplitMix(0xC01 + variant);
    let mut z = qz::ZoneBuilder::wide("glue.test.");
    z.add("glue.test.", wire::T_SOA, 60, &wire::soa_rdata("ns01.glue.test.", "h.glue.test.", 1));
    // more name servers than the writer keeps compression hints for, with sibling and nested
    // names towards the end and address sets of varying size (so that, while the advertised
    // size is swept, an RRset is rolled back and a *smaller* later one still fits)
    let mut hosts: Vec<String> = (1..=14).map(|i| format!("ns{i:02}.glue.test.")).collect();
    let tail = ["x.y.glue.test.", "z.y.glue.test.", "w.y.glue.test.", "ns19.glue.test.", "a.b.c.d.glue.test.", "ns21.y.glue.test.", "q.z.y.glue.test.", "ns23.glue.test."];
    let mut order: Vec<usize> = (0..tail.len()).collect();
    for i in (1..order.len()).rev() {
        order.swap(i, r.below(i as u64 + 1) as usize);
    }
    hosts.extend(order.iter().map(|i| tail[*i].to_string()));
    let mut addrs = |z: &mut qz::ZoneBuilder, hname: &str, tag: u8, i: u8, r: &mut SplitMix| {
        for k in 0..(1 + r.below(3)) as u8 {
            z.add(hname, wire::T_A, 60, &[10, tag, k, i]);
        }
        for k in 0..r.below(3) as u8 {
            z.add(hname, wire::T_AAAA, 60, &[0x20, 1, 0xd, 0xb8, 0, 0, 0, 0, 0, 0, 0, 0, 0, tag, k, i]);
        }
    };
    for (i, hname) in hosts.iter().enumerate() {
        z.add("glue.test.", wire::T_NS, 60, &wire::name_wire(hname));
        addrs(&mut z, hname, 9, i as u8, &mut r);
    }
    for i in 0..(8 + r.below(12)) as u8 {
        let mx = format!("mx{i}.{}glue.test.", if r.below(2) == 0 { "" } else { "y." });
        z.add("glue.test.", wire::T_MX, 60, &{
            let mut v = vec![0, i];
            v.extend(wire::name_wire(&mx));
            v
        });
        addrs(&mut z, &mx, 8, i, &mut r);
    }
    // targets outside the zone that are *shorter* than the apex (parent domain, root)
    z.add("up.glue.test.", wire::T_CNAME, 60, &wire::name_wire("test."));
    z.add("root.glue.test.", wire::T_CNAME, 60, &wire::name_wire("."));
    for (pref, t) in [(1u8, "test."), (2, ".")] {
        z.add("mxup.glue.test.", wire::T_MX, 60, &{
            let mut v = vec![0, pref];
            v.extend(wire::name_wire(t));
            v
        });
    }
    z.add("srvroot.glue.test.", 33, 60, &{
        let mut v = vec![0, 1, 0, 1, 0, 53];
        v.extend(wire::name_wire("."));
        v
    });
    z.add("nsup.glue.test.", wire::T_NS, 60, &wire::name_wire("test."));
    z.add("nsup.glue.test.", wire::T_NS, 60, &wire::name_wire("."));
    for i in 0..(10 + r.below(12)) as u8 {
        let ns = format!("n{i}.{}deleg.glue.test.", if r.below(3) == 0 { "k." } else { "" });
        z.add("deleg.glue.test.", wire::T_NS, 60, &wire::name_wire(&ns));
        addrs(&mut z, &ns, 7, i, &mut r);
    }
    z.finish()
}
fn nosoa_zone() -> Arc<quandary::db::HashMapTreeZone> {
    let mut z = qz::ZoneBuilder::new("nosoa.test.", wire::C_IN);
    z.add("nosoa.test.", wire::T_NS, 60, &wire::name_wire("ns.elsewhere."));
    z.add("www.nosoa.test.", wire::T_A, 60, &[10, 0, 0, 9]);
    z.finish()
}
fn badsoa_zone() -> Arc<quandary::db::HashMapTreeZone> {
    let mut z = qz::ZoneBuilder::new("badsoa.test.", wire::C_IN);
    z.add("badsoa.test.", wire::T_SOA, 60, &[3, b'n', b's', 0, 1]);
    z.add("badsoa.test.", wire::T_NS, 60, &wire::name_wire("ns.elsewhere."));
    z.finish()
}

/// A zone drawn from a seed: every owner the request corpus asks about (and some below and beside
/// them, and wildcards) gets 0-3 RRsets of assorted types whose RDATA is valid, cut short, empty,
/// random octets, a compression pointer, an over-long name or label - everything the public zone
/// API accepts. The apex may lack SOA or NS or have them malformed.
fn random_zone(apex: &str, owners: &[&str], seed: u64) -> Arc<quandary::db::HashMapTreeZone> {
    random_zone_in(apex, owners, seed, wire::C_IN)
}
fn random_zone_in(apex: &str, owners: &[&str], seed: u64, class: u16) -> Arc<quandary::db::HashMapTreeZone> {
    use quandary::class::Class;
    use quandary::db::zone::GluePolicy;
    use quandary::rr::{Rdata, Ttl, Type};
    let mut r = SplitMix(seed ^ 0xC01_2A2A);
    let class = Class::from(class);
    let mut zone = quandary::db::HashMapTreeZone::new(qz::qname(apex), class, if r.below(2) == 0 { GluePolicy::Narrow } else { GluePolicy::Wide });
    let types: &[u16] = &[wire::T_A, wire::T_AAAA, wire::T_NS, wire::T_CNAME, wire::T_MX, wire::T_SOA, wire::T_TXT, 33, 12, 13, 14, 11, 7, 99, 65280];
    let names: Vec<String> = owners.iter().map(|s| s.to_string()).chain(["elsewhere.".to_string(), ".".to_string(), "test.".to_string(), format!("ns.{apex}"), format!("a.b.c.{apex}")]).collect();
    let mut name_rdata = |r: &mut SplitMix| -> Vec<u8> {
        match r.below(8) {
            0 => vec![0xc0, 0x0c],
            1 => vec![0xc0],
            2 => {
                let mut v = vec![64u8];
                v.extend(vec![b'x'; 64]);
                v.push(0);
                v
            }
            3 => {
                // 255-octet name
                let mut v = vec![];
                for _ in 0..3 {
                    v.push(63);
                    v.extend(vec![b'l'; 63]);
                }
                v.push(61);
                v.extend(vec![b'l'; 61]);
                v.push(0);
                v
            }
            4 => vec![3, b'a', b'b'],
            _ => wire::name_wire(&names[r.below(names.len() as u64) as usize]),
        }
    };
    let mut add = |zone: &mut quandary::db::HashMapTreeZone, owner: &str, t: u16, rd: &[u8]| {
        if let (Ok(o), Ok(rd)) = (owner.parse::<Box<quandary::name::Name>>(), <&Rdata>::try_from(rd)) {
            let _ = zone.add(&o, Type::from(t), class, Ttl::from(60), rd);
        }
    };
    let mut all_owners: Vec<String> = owners.iter().map(|s| s.to_string()).collect();
    all_owners.push(apex.to_string());
    all_owners.push(format!("*.{apex}"));
    all_owners.push(format!("*.wild.{apex}"));
    all_owners.push(format!("below.www.{apex}"));
    for owner in &all_owners {
        for _ in 0..r.below(4) {
            let t = types[r.below(types.len() as u64) as usize];
            for _ in 0..1 + r.below(3) {
                let mut rd: Vec<u8> = match t {
                    wire::T_A => vec![10, 0, 0, r.next() as u8],
                    wire::T_AAAA => (0..16).map(|_| r.next() as u8).collect(),
                    wire::T_NS | wire::T_CNAME | 12 | 7 => name_rdata(&mut r),
                    wire::T_MX => {
                        let mut v = vec![0, r.next() as u8];
                        v.extend(name_rdata(&mut r));
                        v
                    }
                    33 => {
                        let mut v = vec![0, 1, 0, 2, 0, 53];
                        v.extend(name_rdata(&mut r));
                        v
                    }
                    wire::T_SOA | 14 => {
                        let mut v = name_rdata(&mut r);
                        v.extend(name_rdata(&mut r));
                        if t == wire::T_SOA {
                            v.extend((0..20).map(|_| r.next() as u8));
                        }
                        v
                    }
                    wire::T_TXT | 13 => wire::txt_rdata(&vec![b't'; r.below(80) as usize]),
                    _ => (0..r.below(40)).map(|_| r.next() as u8).collect(),
                };
                match r.below(10) {
                    0 => rd.truncate(r.below(rd.len() as u64 + 1) as usize),
                    1 => rd.clear(),
                    2 => rd = (0..r.below(30)).map(|_| r.next() as u8).collect(),
                    3 => rd.push(r.next() as u8),
                    _ => {}
                }
                add(&mut zone, owner, t, &rd);
            }
        }
    }
    // usually a proper apex on top (an RRset may then hold good and bad members side by side)
    if r.below(4) != 0 {
        add(&mut zone, apex, wire::T_SOA, &wire::soa_rdata("ns.elsewhere.", "h.elsewhere.", 1));
    }
    if r.below(4) != 0 {
        add(&mut zone, apex, wire::T_NS, &wire::name_wire(&format!("ns.{apex}")));
    }
    Arc::new(zone)
}

pub fn make_server(cfg: usize) -> Server<Cat> {
    make_server_for(cfg, 0)
}
/// `msg` seeds the zones of the random-zone configurations (8, 9).
pub fn make_server_for(cfg: usize, msg: usize) -> Server<Cat> {
    let mut c = Cat::new();
    match cfg {
        0 => {}
        8 | 9 => {
            let ex: Vec<&str> = QNAMES.iter().copied().filter(|q| q.ends_with(".example.") && !q.chars().any(|ch| ch.is_ascii_uppercase())).collect();
            let gl: Vec<&str> = QNAMES.iter().copied().filter(|q| q.ends_with(".glue.test.")).collect();
            c.insert(Entry::Loaded(random_zone("example.", &ex, (msg as u64) << 4 | cfg as u64), ()));
            c.insert(Entry::Loaded(random_zone("glue.test.", &gl, (msg as u64) << 4 | cfg as u64 | 0x100_0000), ()));
            c.insert(Entry::Loaded(random_zone_in("example.", &ex, (msg as u64) << 4 | cfg as u64 | 0x200_0000, wire::C_CH), ()));
        }
        3 | 4 => {
            c.insert(Entry::Loaded(corrupt_zone(), ()));
            c.insert(Entry::Loaded(corrupt_zone_in(wire::C_CH), ()));
            c.insert(Entry::Loaded(nosoa_zone(), ()));
            c.insert(Entry::Loaded(badsoa_zone(), ()));
        }
        _ => {
            c.insert(Entry::Loaded(rich_zone(), ()));
            c.insert(Entry::Loaded(glue_zone(cfg as u64), ()));
            c.insert(Entry::NotYetLoaded(qz::qname("unloaded.test."), Class::IN, ()));
            c.insert(Entry::FailedToLoad(qz::qname("failed.test."), Class::IN, ()));
            c.insert(Entry::Loaded(nosoa_zone(), ()));
        }
    }
    let mut s = Server::new(Arc::new(c));
    if matches!(cfg, 2 | 4 | 5 | 7 | 9) {
        s.set_tsig_keys(keys());
    }
    if matches!(cfg, 5 | 6 | 9) {
        // the corners of what RrlParams accepts: smallest and largest rate x window products,
        // prefix lengths 0 and 32/64, a one-entry table
        let mut p = match cfg {
            5 => RrlParams::new(1, 1, 1, 1).unwrap(),
            6 => RrlParams::new(2, u32::MAX, 1 << 31, 1).unwrap(),
            _ => RrlParams::new(u32::MAX, 1, 3, 1).unwrap(),
        };
        // all three slip regimes: always slip (1), random (2), always drop (0)
        p.set_slip(match cfg {
            5 => 1,
            6 => 2,
            _ => 0,
        });
        p.set_size(if cfg == 5 { 1 } else { 3 }).unwrap();
        match cfg {
            5 => {
                p.set_ipv4_prefix_len(0).unwrap();
                p.set_ipv6_prefix_len(0).unwrap();
            }
            6 => {
                p.set_ipv4_prefix_len(32).unwrap();
                p.set_ipv6_prefix_len(64).unwrap();
            }
            _ => {}
        }
        s.set_rrl_params(Some(p));
    }
    let payload = match cfg {
        6 => 512,
        7 => 65535,
        _ => 1232,
    };
    s.set_edns_udp_payload_size(payload).unwrap();
    s
}

impl Prop for C01 {
    const ID: &'static str = "C01";
    const LEVEL: &'static str = "fault_enumeration";
    type Scn = Scn;
    fn runs(tier: Tier) -> u64 {
        (match tier {
            Tier::Quick => 216,
            Tier::Thorough => 1080,
        }) * N_CFG as u64
    }
    fn gen(r: &mut SplitMix, tier: Tier, idx: u64) -> Scn {
        Scn { msg: idx as usize / N_CFG, cfg: idx as usize % N_CFG, pair_seed: r.next(), pairs: if tier == Tier::Quick { 1_000 } else { 30_000 }, only: None }
    }
    fn plan(r: &mut SplitMix, _s: &Scn) -> ExecPlan {
        ExecPlan { seed: r.next(), strategy: Strategy::Random, clock: ClockPolicy::Des, max_steps: 50_000_000 }
    }
    fn run(scn: &Scn) {
        run(scn)
    }
    fn stack_size() -> usize {
        2 << 20
    }
    /// The first shrink step replaces the whole enumeration by the one failing input (recorded
    /// by the last failing call on this OS thread); then octets are cut from the end and the front.
    fn shrink(s: &Scn) -> Vec<Scn> {
        let mut out = vec![];
        match &s.only {
            None => {
                if let Some((hex, tcp, _)) = FAILING_INPUTS.lock().unwrap().get(&(s.msg, s.cfg)).cloned() {
                    out.push(Scn { only: Some((hex, tcp)), pairs: 0, ..s.clone() });
                }
            }
            Some((hex, tcp)) => {
                let m = crate::util::unhex(hex);
                for cut in [m.len() / 2, m.len().saturating_sub(16), m.len().saturating_sub(1)] {
                    if cut >= 12 && cut < m.len() {
                        out.push(Scn { only: Some((crate::util::hex(&m[..cut]), *tcp)), ..s.clone() });
                    }
                }
            }
        }
        out
    }
    fn nontrivial(_s: &Scn, _r: &ExecRecord) -> bool {
        true
    }
    fn case_hash(s: &Scn, _r: &ExecRecord) -> u64 {
        (s.msg as u64) << 8 | s.cfg as u64
    }
    /// Call site by file and panic message (digits masked), not by line number: an unrelated
    /// edit that shifts lines must not turn a listed finding into a new alarm, while any other
    /// message or file is a different violation.
    fn signature(v: &crate::util::Violation, _s: &Scn) -> String {
        let file = v.class.rsplit_once(':').map(|x| x.0).unwrap_or(&v.class);
        let msg = v.detail.split_once("unwound (").and_then(|x| x.1.split_once(") on a ")).map(|x| x.0).unwrap_or("");
        let masked: String = msg.chars().map(|c| if c.is_ascii_digit() { '#' } else { c }).collect();
        format!("{file}|{masked}")
    }
    fn rule() -> String {
        format!("one execution = one (request shape, server configuration) pair: {} shapes quick / 1080 thorough (plain, EDNS with options and odd versions, big RRsets with swept payload sizes, TSIG-signed with known/unknown keys, truncated MACs and maximal 255-octet key/algorithm names, keys with a root name / empty, 1-octet and 200-octet secrets, time signed 0 and 2^48-1 with fudge 65535, extra records in every section, compressed and mixed-case names, opcodes 0-15, QTYPE ANY/AXFR/IXFR/meta, QCLASS ANY/CH, NOTIFY/UPDATE-shaped, two questions, misplaced OPT/TSIG, header only, answers of more than 16 KiB made of name-bearing records, question-less requests with OPT (odd versions) or TSIG) x {} configurations (empty catalog; loaded/NotYetLoaded/FailedToLoad entries; zones with malformed stored RDATA in classes IN and CH, missing or malformed SOA; two configurations whose zones are drawn from a seed per request shape: every owner the corpus asks about holds 0-3 RRsets of assorted types with valid, cut, empty, random, pointer-bearing or over-long RDATA; key sets (two algorithms, secrets of 0 to 200 octets, root-named key); RRL slip 0/1/2 with rate x window from 1 to 2^32-1, prefix lengths 0, default and 32/64, a one-entry table, simulated time passing between requests (0, seconds, a minute, a day, 400 days); sources IPv4, IPv6, IPv4-mapped, all-ones and unspecified; payload 512/1232/65535); per pair, exhaustively: truncation to every length, at every offset substitution by 10 values, each header count set to 0/+1/0xffff, every RR's RDLENGTH set to 0..80, the advertised EDNS payload size set to every value 0..1400 (+ large ones), junk of 1/2/11/300 octets appended, tail duplicated, both transports; then seeded random pairs of those faults. Every pair is non-trivial and distinct by construction", 216, N_CFG)
    }
    fn assumptions() -> Vec<String> {
        vec![
            "scope = the single-fault neighbourhood (plus sampled fault pairs) of the traffic the simulated clients send, not all byte strings: that quantifier is not coverable by simulation".into(),
            "the server instance is discarded after an unwind (a poisoned rate-limit bucket must not turn one finding into a cascade)".into(),
        ]
    }
    fn real_components() -> Vec<&'static str> {
        vec!["everything below Server::handle_message: src/server, src/message, src/name, src/rr, src/db"]
    }
    fn stub_components() -> Vec<&'static str> {
        vec!["the I/O providers (requests enter at the transport seam)", "clock/RwLock/Mutex/RandomState (simrt, single task)"]
    }
    fn engine() -> &'static str {
        "E4 seam-fault-enum"
    }
    fn extra_coverage(stats: &simrt::Stats) -> serde_json::Value {
        let calls = stats.probes.get("c01_calls").copied().unwrap_or(0);
        let distinct = stats.probes.get("c01_distinct_inputs").copied().unwrap_or(0);
        serde_json::json!({
            "evaluations": calls,
            "distinct_nontrivial": distinct,
            "distinct_nontrivial_note": "distinct (request octets, transport) pairs per (shape, configuration) execution, summed over executions (executions differ in shape or configuration); every input is a faulted or unmodified corpus request, hence non-trivial",
            "executions": stats.executions,
            "exhaustive": true,
            "exhaustive_scope": "all single faults (truncation, substitution alphabet, count bumps, appends, tail duplication) of every corpus message on both transports under every configuration; fault pairs are sampled",
            "handle_message_calls": stats.probes.get("c01_calls").copied().unwrap_or(0),
        })
    }
    fn expected_probes() -> Vec<&'static str> {
        vec!["c01_calls", "c01_responses", "c01_no_response"]
    }
}

/// First unlisted failing input per (message, configuration), for the minimiser.
static FAILING_INPUTS: std::sync::Mutex<std::collections::BTreeMap<(usize, usize), (String, bool, bool)>> = std::sync::Mutex::new(std::collections::BTreeMap::new());

struct Harness {
    msg: usize,
    cfg: usize,
    server: Server<Cat>,
    buf: Vec<u8>,
    sites: Vec<String>,
    /// hashes of the (input, transport) pairs tried in this execution
    seen: std::collections::HashSet<u64>,
    /// an unlisted violation has been recorded (it is never replaced)
    unlisted_recorded: bool,
    /// number of calls so far (drives the simulated time that passes between requests)
    calls: u64,
}
impl Harness {
    fn call(&mut self, msg: &[u8], tcp: bool, what: &str) {
        simrt::probe("c01_calls");
        {
            let mut hsh = 0xcbf29ce484222325u64 ^ tcp as u64;
            for b in msg {
                hsh = (hsh ^ *b as u64).wrapping_mul(0x100000001b3);
            }
            if self.seen.insert(hsh) {
                simrt::probe("c01_distinct_inputs");
            }
        }
        // simulated time passes between requests (the rate limiter refills per elapsed second):
        // mostly none, now and then seconds, a minute, a day, more than a year
        self.calls += 1;
        if self.calls % 53 == 0 {
            const GAPS_MS: &[u64] = &[2_200, 1_000, 999, 61_000, 86_400_000, 2_200, 400 * 86_400_000];
            simrt::advance(std::time::Duration::from_millis(GAPS_MS[(self.calls / 53) as usize % GAPS_MS.len()]));
        }
        // source addresses of every family the transport can hand over (the rate limiter masks them)
        let low = (msg.len() % 200) as u8;
        let src = match msg.len() % 7 {
            0 => IpAddr::V6(std::net::Ipv6Addr::new(0x2001, 0xdb8, 0, low as u16, 0, 0, 0, 1)),
            1 => IpAddr::V6(Ipv4Addr::new(203, 0, 113, low).to_ipv6_mapped()),
            2 => IpAddr::V6(std::net::Ipv6Addr::new(0xffff, 0xffff, 0xffff, 0xffff, 0xffff, 0xffff, 0xffff, 0xffff)),
            3 => IpAddr::V4(Ipv4Addr::new(255, 255, 255, 255)),
            4 => IpAddr::V6(std::net::Ipv6Addr::UNSPECIFIED),
            _ => IpAddr::V4(Ipv4Addr::new(203, 0, 113, low)),
        };
        let t = if tcp { Transport::Tcp } else { Transport::Udp };
        let server = &self.server;
        let buf = &mut self.buf;
        let r = std::panic::catch_unwind(std::panic::AssertUnwindSafe(|| matches!(server.handle_message(msg, ReceivedInfo::new(src, t), buf), quandary::server::Response::Single(_))));
        match r {
            Ok(true) => simrt::probe("c01_responses"),
            Ok(false) => simrt::probe("c01_no_response"),
            Err(_) => {
                let (m, loc) = crate::util::take_last_panic().unwrap_or_default();
                let site = format!("panic@{}", crate::util::norm_location(&loc));
                if !self.sites.contains(&site) {
                    self.sites.push(site.clone());
                }
                let v = crate::util::Violation { class: site.clone(), detail: format!("handle_message unwound ({m}) on a {}-octet request over {} [{what}], configuration {}; request hex {}", msg.len(), if tcp { "TCP" } else { "UDP" }, self.cfg, crate::util::hex(msg)) };
                // a listed known finding must not mask a different violation in the same execution
                let listed = crate::driver::known().matches(C01::ID, &<C01 as Prop>::signature(&v, &Scn { msg: 0, cfg: 0, pair_seed: 0, pairs: 0, only: None })).is_some();
                {
                    // remember the input: an unlisted one replaces a listed one, never the reverse
                    let mut f = FAILING_INPUTS.lock().unwrap();
                    let e = f.get(&(self.msg, self.cfg)).cloned();
                    if e.is_none() || (!listed && e.map(|x| x.2).unwrap_or(false)) {
                        f.insert((self.msg, self.cfg), (crate::util::hex(msg), tcp, listed));
                    }
                }
                if listed {
                    simrt::probe("c01_known_finding_hits");
                    viol(&v.class, v.detail);
                } else if !self.unlisted_recorded {
                    self.unlisted_recorded = true;
                    crate::util::viol_replace(&v.class, v.detail);
                }
                // a poisoned bucket must not turn one finding into a cascade
                self.server = make_server_for(self.cfg, self.msg);
            }
        }
    }
}

const SUBST: [u8; 8] = [0x00, 0x01, 0x3f, 0x40, 0x7f, 0x80, 0xc0, 0xff];

fn apply_fault(base: &[u8], r: &mut SplitMix) -> Vec<u8> {
    let mut m = base.to_vec();
    match r.below(5) {
        0 => m.truncate(r.below(m.len() as u64 + 1) as usize),
        1 if !m.is_empty() => {
            let i = r.below(m.len() as u64) as usize;
            m[i] = match r.below(10) {
                8 => m[i] ^ 1,
                9 => m[i].wrapping_add(1),
                k => SUBST[k as usize],
            };
        }
        2 if m.len() >= 12 => {
            let c = 4 + 2 * r.below(4) as usize;
            let v = u16::from_be_bytes([m[c], m[c + 1]]);
            let nv = *crate::util::pick(r, &[0u16, v.wrapping_add(1), 0xffff]);
            m[c..c + 2].copy_from_slice(&nv.to_be_bytes());
        }
        3 => {
            let n = *crate::util::pick(r, &[1usize, 2, 11, 300]);
            m.extend((0..n).map(|i| (i as u8).wrapping_mul(37)));
        }
        _ => {
            let k = r.below(m.len() as u64 + 1) as usize;
            let tail = m[k..].to_vec();
            m.extend(tail);
        }
    }
    m
}

fn run(scn: &Scn) {
    simrt::start(world_cfg(13, FaultCfg::none()));
    let mut h = Harness { msg: scn.msg, cfg: scn.cfg, server: make_server_for(scn.cfg, scn.msg), buf: vec![0u8; 65535], sites: vec![], seen: std::collections::HashSet::new(), unlisted_recorded: false, calls: 0 };
    if let Some((hex, tcp)) = &scn.only {
        h.call(&crate::util::unhex(hex), *tcp, "replay of one input");
        simrt::finish();
        return;
    }
    let base = base_message(scn.msg);
    // requests whose answers are tens of kilobytes cost milliseconds per call: for them the
    // substitution and 16-bit sweeps are left out (every truncation, count bump, append and
    // duplication, and a smaller number of random fault pairs, remain)
    let heavy = scn.msg % N_SHAPES == 24;
    for tcp in [false, true] {
        h.call(&base, tcp, "unmodified");
        // truncation to every length
        for k in 0..base.len() {
            simrt::count_fault(Fault::WireTruncate);
            h.call(&base[..k], tcp, &format!("truncated to {k}"));
        }
        // substitution at every offset
        let mut m = base.clone();
        for i in 0..if heavy { 0 } else { base.len() } {
            let orig = base[i];
            for v in SUBST.iter().copied().chain([orig ^ 1, orig.wrapping_add(1)]) {
                if v == orig {
                    continue;
                }
                simrt::count_fault(Fault::WireSubstitute);
                m[i] = v;
                h.call(&m, tcp, &format!("octet {i} = {v:#04x}"));
            }
            m[i] = orig;
        }
        // header counts
        if base.len() >= 12 {
            for c in [4usize, 6, 8, 10] {
                let v = u16::from_be_bytes([base[c], base[c + 1]]);
                for nv in [0u16, v.wrapping_add(1), 0xffff] {
                    simrt::count_fault(Fault::WireCountBump);
                    m[c..c + 2].copy_from_slice(&nv.to_be_bytes());
                    h.call(&m, tcp, &format!("count at {c} = {nv}"));
                }
                m[c..c + 2].copy_from_slice(&base[c..c + 2]);
            }
        }
        // junk appended, tail duplicated
        for n in [1usize, 2, 11, 300] {
            simrt::count_fault(Fault::WireAppend);
            let mut j = base.clone();
            j.extend((0..n).map(|i| (i as u8).wrapping_mul(37)));
            h.call(&j, tcp, &format!("{n} octets appended"));
        }
        for k in [12usize.min(base.len()), base.len() / 2, base.len().saturating_sub(11)] {
            simrt::count_fault(Fault::WireDupTail);
            let mut j = base.clone();
            j.extend_from_slice(&base[k..]);
            h.call(&j, tcp, &format!("tail from {k} duplicated"));
        }
    }
    // 16-bit fields swept over a dense range: the advertised EDNS payload size (response
    // truncation lands on every alignment) and every RR's RDLENGTH
    if let (Ok(m), false) = (wire::decode(&base), heavy) {
        for tcp in [false, true] {
            for rr in m.all_rrs() {
                let rdlen_at = rr.rdata_off - 2;
                let mut msg = base.clone();
                for v in 0..=80u16 {
                    simrt::count_fault(Fault::WireSubstitute);
                    msg[rdlen_at..rdlen_at + 2].copy_from_slice(&v.to_be_bytes());
                    h.call(&msg, tcp, &format!("RDLENGTH at {rdlen_at} = {v}"));
                }
                if rr.rtype == wire::T_OPT && !tcp {
                    let class_at = rr.rdata_off - 8;
                    let mut msg = base.clone();
                    for v in (0..=1400u16).chain([4095, 4096, 16_383, 65_534, 65_535]) {
                        simrt::count_fault(Fault::WireSubstitute);
                        msg[class_at..class_at + 2].copy_from_slice(&v.to_be_bytes());
                        h.call(&msg, tcp, &format!("advertised payload size = {v}"));
                    }
                }
            }
        }
    }
    // seeded random pairs of faults
    let mut r = SplitMix(scn.pair_seed);
    for _ in 0..if heavy { scn.pairs.min(60) } else { scn.pairs } {
        let m1 = apply_fault(&base, &mut r);
        let m2 = apply_fault(&m1, &mut r);
        h.call(&m2, r.below(2) == 0, "random pair of faults");
    }
    simrt::finish();
}
