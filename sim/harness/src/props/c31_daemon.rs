//! C31, whole-daemon mode: the daemon's own `try_running` (configuration loading, socket
//! binding through the blocking I/O provider, initial zone load, the signal loop with its
//! SIGHUP arm and its error handling, graceful shutdown on SIGTERM/SIGINT) runs as a simulated
//! thread on the simulated file system, network, clock and signal source. The harness edits
//! files, raises SIGHUP, waits until the signal loop is idle again, and observes what is served
//! *through UDP datagrams on the simulated network* - the property's own observation point.
use super::c31::{apply_edits, decode_obs, expected, keys_toml, next_model, with_alts, path_of, query, write_config, Files, Obs, Scn, Served, Step, UNIVERSE};
use crate::args::{RunArgs, ZoneDescription};
use crate::driver::world_cfg;
use crate::run as daemon;
use crate::util::viol;
use crate::wire;
use quandary_simrt as simrt;
use simrt::net::UdpSocket;
use simrt::{signal, Fault, FaultCfg};
use std::collections::BTreeMap;
use std::net::{IpAddr, Ipv4Addr, SocketAddr};
use std::sync::atomic::{AtomicBool, AtomicU64, Ordering::SeqCst};
use std::sync::Arc;
use std::time::Duration;

const SIGHUP: i32 = 1;
const SIGINT: i32 = 2;
const SIGTERM: i32 = 15;

fn server_addr() -> SocketAddr {
    SocketAddr::new(IpAddr::V4(Ipv4Addr::new(127, 0, 0, 1)), 5353)
}
fn client_addr(i: usize) -> SocketAddr {
    SocketAddr::new(IpAddr::V4(Ipv4Addr::new(10, 9, 0, 1 + i as u8)), 40_000 + i as u16)
}

/// One UDP client: sends a query and waits for the response that carries its ID, retrying when
/// the (lossy) network or a failing `send` on the server ate the exchange.
pub(crate) struct Client {
    sock: UdpSocket,
    me: SocketAddr,
    next_id: u16,
}
impl Client {
    pub fn new(i: usize) -> Client {
        let me = client_addr(i);
        let sock = UdpSocket::bind_client(me).expect("client bind");
        let _ = sock.set_read_timeout(Some(Duration::from_secs(3)));
        Client { sock, me, next_id: (i as u16) << 12 }
    }
    /// Returns the observation and the event stamp taken just before the (last) request was sent.
    pub fn ask(&mut self, qname: &str, qtype: u16, class: u16) -> (Obs, u64) {
        let mut buf = vec![0u8; 4096];
        let mut invoked = 0;
        for _attempt in 0..4 {
            self.next_id = self.next_id.wrapping_add(1);
            let id = self.next_id;
            let mut msg = query(qname, qtype, class);
            msg[0] = (id >> 8) as u8;
            msg[1] = id as u8;
            invoked = simrt::stamp();
            simrt::net::send_datagram(self.me, server_addr(), &msg);
            loop {
                match self.sock.recv(&mut buf) {
                    Ok((n, src, _)) => {
                        if n >= 2 && buf[0] == msg[0] && buf[1] == msg[1] && src == server_addr() {
                            return (decode_obs(&buf[..n]), invoked);
                        }
                        // a late duplicate of an earlier exchange: keep waiting
                        simrt::probe("c31d_stale_datagram_discarded");
                    }
                    Err(_) => break, // time-out: retry
                }
            }
            simrt::probe("c31d_query_retried");
        }
        (Obs::NoResponse, invoked)
    }
}

/// One TCP client that keeps its connection open across reloads (as long as the provider's idle
/// time-out lets it): the second and later requests on a connection accepted *before* a reload
/// must be answered from the reloaded data like any other request.
pub(crate) struct TcpClient {
    stream: Option<simrt::net::TcpStream>,
    me: SocketAddr,
    next_id: u16,
    /// requests answered so far on the current connection
    answered_on_conn: usize,
}
impl TcpClient {
    pub fn new(i: usize) -> TcpClient {
        TcpClient { stream: None, me: SocketAddr::new(IpAddr::V4(Ipv4Addr::new(10, 9, 1, 1 + i as u8)), 41_000 + i as u16), next_id: 0x7000, answered_on_conn: 0 }
    }
    fn exchange(stream: &mut simrt::net::TcpStream, msg: &[u8]) -> Option<Vec<u8>> {
        use std::io::{Read, Write};
        let mut framed = (msg.len() as u16).to_be_bytes().to_vec();
        framed.extend_from_slice(msg);
        stream.write_all(&framed).ok()?;
        let mut got = vec![];
        let mut buf = [0u8; 2048];
        loop {
            if got.len() >= 2 {
                let n = u16::from_be_bytes([got[0], got[1]]) as usize;
                if got.len() >= 2 + n {
                    return Some(got[2..2 + n].to_vec());
                }
            }
            match stream.read(&mut buf) {
                Ok(0) | Err(_) => return None,
                Ok(n) => got.extend_from_slice(&buf[..n]),
            }
        }
    }
    /// Returns the observation and whether it came over a connection that had already carried an
    /// earlier exchange (`None`: the server could not be reached over TCP at all).
    pub fn ask(&mut self, qname: &str, qtype: u16, class: u16) -> Option<(Obs, bool)> {
        for _attempt in 0..2 {
            self.next_id = self.next_id.wrapping_add(1);
            let mut msg = query(qname, qtype, class);
            msg[0] = (self.next_id >> 8) as u8;
            msg[1] = self.next_id as u8;
            if self.stream.is_none() {
                let s = simrt::net::connect(server_addr(), self.me, 1 << 20).ok()?;
                let _ = s.set_read_timeout(Some(Duration::from_secs(3)));
                self.stream = Some(s);
                self.answered_on_conn = 0;
            }
            let reused = self.answered_on_conn > 0;
            match Self::exchange(self.stream.as_mut().unwrap(), &msg) {
                Some(resp) if resp.len() >= 2 && resp[0] == msg[0] && resp[1] == msg[1] => {
                    self.answered_on_conn += 1;
                    return Some((decode_obs(&resp), reused));
                }
                _ => {
                    // closed by the provider's idle time-out (or worse): start over on a new connection
                    self.stream = None;
                    simrt::probe("c31d_tcp_reconnect");
                }
            }
        }
        None
    }
}

fn io_table(scn: &Scn) -> String {
    match scn.daemon_io {
        Some((base, linger, udp)) => format!("[io]\nprovider = \"blocking\"\ntcp_base_workers = {base}\ntcp_worker_linger = {linger}\nudp_workers_per_socket = {udp}\n"),
        None => String::new(),
    }
}

/// The zones of command-line mode: the IN-class zones of the first step, with absolute paths.
pub(crate) fn args_zones(scn: &Scn) -> Vec<(usize, usize)> {
    scn.steps.first().map(|s| s.zones.clone()).unwrap_or_default().into_iter().filter(|(z, _)| UNIVERSE[*z].1 == 1).collect()
}

pub fn run(scn: &Scn) {
    let mut faults = FaultCfg::none();
    for (k, rate) in &scn.fs_faults {
        if let Some(f) = Fault::from_name(k) {
            faults = faults.with(f, *rate);
        }
    }
    simrt::start(world_cfg(5, faults));
    simrt::probe("c31d_daemon_runs");
    use simrt::fs;
    fs::mkdir("/etc/quandary");
    fs::mkdir("/etc/quandary/alt");
    let cfg_path = std::path::Path::new("/etc/quandary/config.toml");
    let args_mode = scn.daemon == 2;
    let preamble = "bind = \"127.0.0.1:5353\"\n";
    let tail = io_table(scn);
    let fixed_zones = args_zones(scn);
    // with datagram loss or failing sends injected, a missing response is not an observation
    let lossy = scn.fs_faults.iter().any(|(k, _)| k == "udp_loss" || k == "udp_send_error");

    let mut files = Files::default();
    let mut served: BTreeMap<usize, Served> = BTreeMap::new();
    let mut daemon_thread: Option<shuttle::thread::JoinHandle<Result<(), String>>> = None;
    let daemon_done = Arc::new(AtomicBool::new(false));
    let mut client = Client::new(0);
    let mut tcp_client = TcpClient::new(0);

    for (si, step0) in scn.steps.iter().enumerate() {
        // command-line mode: the set of zones is fixed at start-up, only files change
        let step: Step = if args_mode { Step { zones: fixed_zones.clone(), config_fault: 0, ..step0.clone() } } else { step0.clone() };
        let step = &step;
        simrt::advance(Duration::from_secs(step.advance_s.max(1)));
        let now_s = simrt::time::wall_secs();
        apply_edits(step, now_s, &mut files);
        if !args_mode {
            write_config(step, cfg_path, preamble, &format!("{tail}{}", keys_toml(scn, si)));
        }
        let expect_ok = step.config_fault == 0;
        let served_before = served.clone();
        let (mut served_after, alts) = if expect_ok { next_model(&served_before, step, &files) } else { (served_before.clone(), BTreeMap::new()) };
        let served_after_alt = with_alts(&served_after, &alts);

        if si == 0 {
            // --- start the daemon ---------------------------------------------------------
            let run_args = if args_mode {
                RunArgs {
                    config: None,
                    bind: Some(server_addr()),
                    ip: None,
                    port: None,
                    zones: fixed_zones.iter().map(|(z, pv)| ZoneDescription { name: UNIVERSE[*z].0.parse().expect("zone name"), path: path_of(*z, *pv).into() }).collect(),
                }
            } else {
                RunArgs { config: Some(cfg_path.to_path_buf()), bind: None, ip: None, port: None, zones: vec![] }
            };
            let done = daemon_done.clone();
            daemon_thread = Some(
                shuttle::thread::Builder::new()
                    .name("quandaryd-main".into())
                    .spawn(move || {
                        let r = daemon::verif_try_running(run_args).map_err(|e| format!("{e:#}"));
                        done.store(true, SeqCst);
                        signal::mark_exited();
                        r
                    })
                    .expect("spawn daemon"),
            );
            if !signal::wait_idle() {
                let r = daemon_thread.take().unwrap().join();
                viol("daemon-failed-to-start", format!("try_running returned {r:?} with a loadable configuration"));
                break;
            }
        } else {
            // --- SIGHUP, optionally with clients querying during the reload -----------------
            let d0 = signal::delivered();
            let mut query_threads = vec![];
            let stop = Arc::new(AtomicU64::new(0));
            if scn.concurrent_queries > 0 {
                let before: Vec<(Obs, Obs)> = (0..UNIVERSE.len()).map(|z| expected(&served_before, z)).collect();
                let after: Vec<(Obs, Obs)> = (0..UNIVERSE.len()).map(|z| expected(&served_after, z)).collect();
                let after_alt: Vec<(Obs, Obs)> = (0..UNIVERSE.len()).map(|z| expected(&served_after_alt, z)).collect();
                for t in 0..scn.concurrent_queries {
                    let (before, after, after_alt, stop) = (before.clone(), after.clone(), after_alt.clone(), stop.clone());
                    query_threads.push(shuttle::thread::spawn(move || {
                        let mut c = Client::new(1 + t + 8 * si);
                        for round in 0..2 {
                            for (z, (zname, class)) in UNIVERSE.iter().enumerate() {
                                if (z + t + round) % 2 == 1 {
                                    continue;
                                }
                                let (got, invoked) = c.ask(&format!("marker.{zname}"), wire::T_TXT, *class);
                                if got == Obs::NoResponse && lossy {
                                    simrt::probe("c31d_query_unanswered");
                                    continue;
                                }
                                // the reload is complete once the signal loop has gone idle again
                                let done_stamp = stop.load(SeqCst);
                                let fresh = done_stamp != 0 && invoked > done_stamp;
                                let ok = got == after[z].0 || got == after_alt[z].0 || (!fresh && got == before[z].0);
                                if got == before[z].0 && before[z].0 != after[z].0 {
                                    simrt::probe("c31_concurrent_query_saw_old_state");
                                }
                                if !ok {
                                    viol(
                                        if fresh { "stale-answer-after-reload-returned" } else { "answer-from-neither-old-nor-new-state" },
                                        format!("daemon mode, step {si}, client {t}: marker.{zname} TXT class {class} got {got:?}; before the reload {:?}, after it {:?}; reload complete before the query: {fresh}", before[z].0, after[z].0),
                                    );
                                    return;
                                }
                            }
                        }
                    }));
                }
                simrt::probe("c31_concurrent_reload");
            }
            signal::raise(SIGHUP);
            if scn.double_hup {
                signal::raise(SIGHUP);
                simrt::probe("c31d_double_sighup");
            }
            let alive = signal::wait_idle();
            if alive && signal::delivered() > d0 {
                stop.store(signal::idle_stamp(), SeqCst);
            }
            for h in query_threads {
                let _ = h.join();
            }
            if !alive {
                let r = daemon_thread.take().unwrap().join();
                viol("daemon-exited-on-reload", format!("step {si}: try_running returned {r:?} after SIGHUP"));
                break;
            }
            if crate::util::has_violation() {
                break;
            }
            if expect_ok {
                if served_before.keys().any(|z| !served_after.contains_key(z)) {
                    simrt::probe("c31_zone_removed");
                }
            } else {
                simrt::probe("c31_reload_failed_as_a_whole");
            }
        }
        // a zone the loader may skip or reload: find out which it did, and go on from there
        for (z, a) in &alts {
            let (zname, class) = UNIVERSE[*z];
            let (got, _) = client.ask(&format!("marker.{zname}"), wire::T_TXT, class);
            if got == expected(&served_after_alt, *z).0 && got != expected(&served_after, *z).0 {
                served_after.insert(*z, a.clone());
                simrt::probe("c31_unchanged_zone_was_reloaded");
            }
        }
        served = served_after;
        // --- observe every zone of the universe over UDP --------------------------------------
        for (z, (zname, class)) in UNIVERSE.iter().enumerate() {
            let marker = format!("marker.{zname}");
            let (exp_txt, exp_soa) = expected(&served, z);
            let (got_txt, _) = client.ask(&marker, wire::T_TXT, *class);
            if got_txt == Obs::NoResponse && lossy {
                // four exchanges in a row eaten by the lossy network: no observation
                simrt::probe("c31d_query_unanswered");
                continue;
            }
            if got_txt != exp_txt {
                viol("zone-served-from-wrong-data", format!("daemon mode (args={args_mode}), after step {si}: {marker} TXT class {class}: got {got_txt:?}, expected {exp_txt:?}; model {served:?}; step {step:?}"));
                break;
            }
            // the same question over the long-lived TCP connection
            if let Some((got_tcp, reused)) = tcp_client.ask(&marker, wire::T_TXT, *class) {
                if reused {
                    simrt::probe("c31d_tcp_query_on_connection_older_than_reload");
                }
                if got_tcp != exp_txt {
                    viol("zone-served-from-wrong-data", format!("daemon mode (args={args_mode}), after step {si}: {marker} TXT class {class} over TCP (connection reused: {reused}): got {got_tcp:?}, expected {exp_txt:?}; model {served:?}; step {step:?}"));
                    break;
                }
            }
            let (got_soa, _) = client.ask(zname, wire::T_SOA, *class);
            if got_soa == Obs::NoResponse && lossy {
                simrt::probe("c31d_query_unanswered");
                continue;
            }
            if got_soa != exp_soa {
                viol("zone-served-from-wrong-data", format!("daemon mode (args={args_mode}), after step {si}: {zname} SOA class {class}: got {got_soa:?}, expected {exp_soa:?}; model {served:?}; step {step:?}"));
                break;
            }
        }
        if crate::util::has_violation() {
            break;
        }
    }
    // --- shut the daemon down -------------------------------------------------------------------
    // (the long-lived client goes away first in half of the runs; otherwise the daemon has to
    // shut down with a connection still open)
    let mut tcp_client = Some(tcp_client);
    if scn.term_sigint {
        tcp_client = None;
    }
    if let Some(h) = daemon_thread.take() {
        if !daemon_done.load(SeqCst) {
            signal::raise(if scn.term_sigint { SIGINT } else { SIGTERM });
        }
        match h.join() {
            Ok(Ok(())) => {}
            Ok(Err(e)) => {
                if !crate::util::has_violation() {
                    viol("daemon-exit-status", format!("try_running returned an error after SIGTERM/SIGINT: {e}"));
                }
            }
            Err(_) => {}
        }
        if !crate::util::has_violation() {
            // graceful shutdown: every thread of the daemon has exited when try_running returns
            if simrt::thread::live() > 0 {
                viol("daemon-threads-alive-after-exit", format!("{} thread(s) of the daemon still running after try_running returned", simrt::thread::live()));
            }
        }
        if !crate::util::has_violation() {
            simrt::thread::wait_all_exited();
        }
    }
    drop(tcp_client);
    simrt::finish();
}
