//! C27 – rate limiting groups responses into the documented streams.
//!
//! A fresh limiter with one response per stream (rate = window = 1); request
//! sequences A, [A'], B from simulated peers less than one simulated second
//! apart; B must be limited exactly when an earlier rate-limited-eligible
//! request with a response belongs to B's stream.
use crate::driver::{world_cfg, Prop, Tier};
use crate::qz::{self, Cat};
use crate::util::{chance, pick, range, viol, SplitMix};
use crate::wire;
use quandary::class::Class;
use quandary::db::catalog::Entry;
use quandary::server::{RrlParams, Server, Transport};
use quandary_simrt as simrt;
use serde::{Deserialize, Serialize};
use simrt::sched::{ClockPolicy, ExecPlan, ExecRecord, Strategy};
use simrt::FaultCfg;
use std::net::{IpAddr, Ipv4Addr, Ipv6Addr};
use std::sync::Arc;
use std::time::Duration;

#[derive(Clone, Debug, Serialize, Deserialize, PartialEq)]
pub struct Req {
    /// textual source address (IPv4, IPv6 or IPv4-mapped IPv6)
    pub src: String,
    pub qname: String,
    pub qtype: u16,
    pub tcp: bool,
    pub opcode: u8,
    pub edns: bool,
    /// EDNS version put in the OPT record (non-zero: the response is BADVERS, extended RCODE 16)
    #[serde(default)]
    pub edns_version: u8,
    /// 0 = normal, 1 = QR bit set (response-less), 2 = QDCOUNT 2 (response-less), 3 = QDCOUNT 0 (FORMERR)
    pub shape: u8,
    /// simulated milliseconds before this request
    pub gap_ms: u64,
}
#[derive(Clone, Debug, Serialize, Deserialize)]
pub struct Scn {
    pub v4_prefix: u8,
    pub v6_prefix: u8,
    pub slip: usize,
    pub table_size: usize,
    pub hash_key: u64,
    pub reqs: Vec<Req>,
}
pub struct C27;

const NAMES: &[&str] = &[
    "www.example.", "WWW.Example.", "mail.example.", "example.", "alias.example.",
    "x.w.example.", "y.w.example.", "a.b.w.example.", "X.W.EXAMPLE.", "x.v.example.", "y.v.example.",
    "deep.sub.example.", "other.sub.example.", "DEEP.sub.example.",
    "nosuch.example.", "nosuch2.example.", "a.nosuch.example.",
    "www.elsewhere.", "zzz.", "x.unloaded.", "y.unloaded.",
    // names under a wildcard whose RRsets are too large for a plain UDP response: an ANY (or TXT)
    // answer is truncated - emptied, TC set, still NOERROR - and must still count for the wildcard
    "a.big.example.", "b.big.example.", "C.Big.Example.",
];

/// Ground truth by construction of the zone: the name that identifies a
/// NOERROR stream (lower-cased QNAME, or the wildcard that synthesises it).
fn stream_name(qname: &str) -> String {
    let q = qname.to_ascii_lowercase();
    if q.ends_with(".w.example.") {
        "*.w.example.".into()
    } else if q.ends_with(".v.example.") {
        "*.v.example.".into()
    } else if q.ends_with(".big.example.") {
        "*.big.example.".into()
    } else {
        q
    }
}

fn zone() -> Arc<quandary::db::HashMapTreeZone> {
    let mut z = qz::ZoneBuilder::new("example.", wire::C_IN);
    z.soa_ns("example.", 1);
    z.add("www.example.", wire::T_A, 60, &[10, 0, 0, 1]);
    z.add("mail.example.", wire::T_A, 60, &[10, 0, 0, 2]);
    z.add("alias.example.", wire::T_CNAME, 60, &wire::name_wire("www.example."));
    z.add("*.w.example.", wire::T_TXT, 60, &wire::txt_rdata(b"w"));
    z.add("*.v.example.", wire::T_CNAME, 60, &wire::name_wire("www.example."));
    z.add("sub.example.", wire::T_NS, 60, &wire::name_wire("ns.sub.example."));
    z.add("ns.sub.example.", wire::T_A, 60, &[10, 0, 0, 53]);
    z.add("*.big.example.", wire::T_A, 60, &[10, 0, 0, 9]);
    for i in 0..4u8 {
        z.add("*.big.example.", wire::T_TXT, 60, &wire::txt_rdata(&vec![b'a' + i; 200]));
    }
    z.finish()
}
fn catalog() -> Arc<Cat> {
    let mut c = Cat::new();
    c.insert(Entry::Loaded(zone(), ()));
    c.insert(Entry::NotYetLoaded(qz::qname("unloaded."), Class::IN, ()));
    Arc::new(c)
}

fn parse_ip(s: &str) -> IpAddr {
    s.parse().expect("ip")
}
/// (is_v6, masked prefix) after un-mapping IPv4-mapped addresses.
fn net_of(ip: IpAddr, v4p: u8, v6p: u8) -> (bool, u128) {
    let ip = match ip {
        IpAddr::V6(a) => match a.octets() {
            [0, 0, 0, 0, 0, 0, 0, 0, 0, 0, 0xff, 0xff, w, x, y, z] => IpAddr::V4(Ipv4Addr::new(w, x, y, z)),
            _ => IpAddr::V6(a),
        },
        v4 => v4,
    };
    match ip {
        IpAddr::V4(a) => {
            let v = u32::from(a) as u128;
            (false, if v4p == 0 { 0 } else { v >> (32 - v4p as u32) })
        }
        IpAddr::V6(a) => {
            let v = u128::from(a) >> 64;
            (true, if v6p == 0 { 0 } else { v >> (64 - v6p as u32) })
        }
    }
}

fn build(req: &Req, id: u16) -> Vec<u8> {
    let mut flags = (req.opcode as u16) << 11;
    if req.shape == 1 {
        flags |= 0x8000;
    }
    let mut m = wire::Msg { id, flags, ..Default::default() };
    let q = wire::Question { qname: wire::name(&req.qname), qtype: req.qtype, qclass: wire::C_IN };
    match req.shape {
        2 => {
            m.questions.push(q.clone());
            m.questions.push(q);
        }
        3 => {}
        _ => m.questions.push(q),
    }
    if req.edns {
        m.additional.push(wire::opt_rr(1232, req.edns_version, 0, &[]));
    }
    wire::encode(&m)
}

fn gen_addr(r: &mut SplitMix) -> String {
    match r.below(12) {
        0..=4 => Ipv4Addr::from(r.next() as u32).to_string(),
        5..=7 => Ipv6Addr::from(((r.next() as u128) << 64) | r.next() as u128 | (0x2000u128 << 112)).to_string(),
        8..=9 => format!("::ffff:{}", Ipv4Addr::from(r.next() as u32)),
        // IPv6 addresses that merely *look* like IPv4 ones: IPv4-compatible ::a.b.c.d, loopback,
        // the unspecified address, and other members of ::/64 (all genuine IPv6 sources)
        10 => Ipv6Addr::from((r.next() as u32) as u128).to_string(),
        _ => pick(r, &["::1", "::", "::2", "::1:0:0:1", "::fffe:10.0.0.1", "64:ff9b::10.0.0.1", "0:0:0:1::1"]).to_string(),
    }
}
fn gen_req(r: &mut SplitMix) -> Req {
    let qname = pick(r, NAMES).to_string();
    Req {
        src: gen_addr(r),
        qname,
        qtype: *pick(r, &[wire::T_A, wire::T_A, wire::T_TXT, wire::T_AAAA, wire::T_MX, wire::T_ANY, 252]),
        tcp: chance(r, 12),
        opcode: if chance(r, 88) { 0 } else { *pick(r, &[2u8, 4, 5]) },
        edns: chance(r, 30),
        edns_version: if chance(r, 12) { *pick(r, &[1u8, 2, 255]) } else { 0 },
        shape: if chance(r, 90) { 0 } else { range(r, 1, 3) as u8 },
        gap_ms: range(r, 0, 300),
    }
}

/// Second address derived from the first so that the pair sits on a prefix boundary.
fn adversarial_addr(r: &mut SplitMix, a: &str, v4p: u8, v6p: u8) -> String {
    match parse_ip(a) {
        IpAddr::V4(x) => {
            let v = u32::from(x);
            match r.below(7) {
                0 if v4p < 32 => Ipv4Addr::from(v ^ (1 << (31 - v4p as u32))).to_string(), // first bit outside the prefix
                1 if v4p > 0 => Ipv4Addr::from(v ^ (1 << (32 - v4p as u32))).to_string(),  // last bit inside the prefix
                2 => format!("::ffff:{x}"),                                                // same host, mapped form
                3 => Ipv6Addr::from((v as u128) << 64).to_string(),                        // IPv6 whose upper half equals the IPv4 value
                4 => Ipv6Addr::from(v as u128).to_string(),                                // IPv4-compatible ::a.b.c.d: an IPv6 source
                5 => Ipv6Addr::from(0xfffe_0000_0000u128 | v as u128).to_string(),         // ::fffe:a.b.c.d: not mapped either
                _ => Ipv4Addr::from(v ^ 1).to_string(),
            }
        }
        IpAddr::V6(x) => {
            let v = u128::from(x);
            match r.below(6) {
                // the same low 32 bits as a plain IPv4 address / in mapped form
                4 => Ipv4Addr::from(v as u32).to_string(),
                5 => format!("::ffff:{}", Ipv4Addr::from(v as u32)),
                0 if v6p < 64 => Ipv6Addr::from(v ^ (1u128 << (127 - v6p as u32))).to_string(),
                1 if v6p > 0 => Ipv6Addr::from(v ^ (1u128 << (128 - v6p as u32))).to_string(),
                2 => Ipv6Addr::from(v ^ 1).to_string(), // differs only in the interface identifier
                _ => Ipv6Addr::from(v ^ (1u128 << 63)).to_string(),
            }
        }
    }
}

impl Prop for C27 {
    const ID: &'static str = "C27";
    type Scn = Scn;
    fn runs(tier: Tier) -> u64 {
        match tier {
            Tier::Quick => 1_000_000,
            Tier::Thorough => 60_000_000,
        }
    }
    fn gen(r: &mut SplitMix, _t: Tier, _i: u64) -> Scn {
        let rv4 = range(r, 0, 32) as u8;
        let v4_prefix = *pick(r, &[0u8, 1, 8, 16, 24, 24, 31, 32, rv4]);
        let rv6 = range(r, 0, 64) as u8;
        let v6_prefix = *pick(r, &[0u8, 1, 32, 48, 56, 56, 63, 64, rv6]);
        let a = gen_req(r);
        let mut b = gen_req(r);
        match r.below(6) {
            // adversarial pairs: same question from addresses on a prefix boundary
            0 | 1 => {
                b = Req { src: adversarial_addr(r, &a.src, v4_prefix, v6_prefix), gap_ms: b.gap_ms, ..a.clone() };
            }
            // same source, related names (case, same wildcard, sibling wildcard, other type)
            2 | 3 => {
                b.src = a.src.clone();
                b.tcp = false;
                b.opcode = 0;
                b.shape = 0;
            }
            _ => {}
        }
        let mut reqs = vec![a.clone()];
        if chance(r, 35) {
            // A': must not touch A's bucket unless it is A's own stream
            let mut m = gen_req(r);
            match r.below(4) {
                0 => m.tcp = true,
                1 => m.opcode = *pick(r, &[2u8, 4, 5]),
                2 => m.shape = range(r, 1, 2) as u8,
                _ => m = Req { gap_ms: m.gap_ms, ..a.clone() },
            }
            reqs.push(m);
        }
        reqs.push(b);
        // keep the whole sequence inside one simulated second
        let total: u64 = reqs.iter().skip(1).map(|q| q.gap_ms).sum();
        if total >= 900 {
            for q in reqs.iter_mut() {
                q.gap_ms /= 4;
            }
        }
        Scn { v4_prefix, v6_prefix, slip: *pick(r, &[0usize, 0, 1]), table_size: *pick(r, &[1usize, 3, 64]), hash_key: r.next(), reqs }
    }
    fn plan(r: &mut SplitMix, _s: &Scn) -> ExecPlan {
        ExecPlan { seed: r.next(), strategy: Strategy::Random, clock: ClockPolicy::Des, max_steps: 100_000 }
    }
    fn run(scn: &Scn) {
        simrt::start(world_cfg(scn.hash_key, FaultCfg::none()));
        let mut mismatch = run_case(scn, scn.hash_key);
        if let Some((class, detail, rekey)) = mismatch.clone() {
            if rekey {
                // 32-bit QNAME hash: an apparent "different names share a stream" must
                // persist under two more hash keys before it is reported
                simrt::probe("c27_rekey_retries");
                for k in 1..=2u64 {
                    if run_case(scn, scn.hash_key.wrapping_add(k.wrapping_mul(0x9E3779B97F4A7C15))).is_none() {
                        mismatch = None;
                        break;
                    }
                }
            }
            if mismatch.is_some() {
                viol(&class, detail);
            }
        }
        simrt::finish();
    }
    fn shrink(s: &Scn) -> Vec<Scn> {
        let mut out = vec![];
        if s.reqs.len() == 3 {
            let mut c = s.clone();
            c.reqs.remove(1);
            out.push(c);
        }
        for i in 0..s.reqs.len() {
            if s.reqs[i].edns {
                let mut c = s.clone();
                c.reqs[i].edns = false;
                out.push(c);
            }
            if s.reqs[i].gap_ms > 0 {
                let mut c = s.clone();
                c.reqs[i].gap_ms = 0;
                out.push(c);
            }
        }
        if s.table_size != 64 {
            let mut c = s.clone();
            c.table_size = 64;
            out.push(c);
        }
        out
    }
    fn nontrivial(s: &Scn, _r: &ExecRecord) -> bool {
        // the last request is eligible for rate limiting
        let b = s.reqs.last().unwrap();
        !b.tcp && b.opcode == 0 && b.shape != 1 && b.shape != 2
    }
    fn case_hash(s: &Scn, _r: &ExecRecord) -> u64 {
        let mut h = 0xcbf29ce484222325u64;
        for b in serde_json::to_string(s).unwrap_or_default().bytes() {
            h = (h ^ b as u64).wrapping_mul(0x100000001b3);
        }
        h
    }
    fn rule() -> String {
        "one execution = a fresh server (rate = window = 1 for all categories, slip 0 or 1, random IPv4 prefix 0-32 / IPv6 prefix 0-64, table size 1/3/64) receiving 2-3 requests A,[A'],B less than one simulated second apart from simulated peers (IPv4, IPv6, IPv4-mapped); a third of the cases are adversarial pairs (addresses on the prefix boundary, mapped/unmapped forms, numerically equal IPv4/IPv6 prefixes, names equal up to case, same and sibling wildcards, a wildcard whose ANY/TXT answer is truncated over UDP); oracle: B limited <=> an earlier eligible, answered request is in B's stream. Non-trivial = B is eligible for limiting; distinct = distinct scenario".into()
    }
    fn assumptions() -> Vec<String> {
        vec![
            "the middle request A' is restricted to requests that must not touch the table or to A's own stream (a different stream could legally evict A's entry on a table collision)".into(),
            "QNAME is keyed by a 32-bit hash (documented): 'different names share a stream' is reported only if it persists under three hash keys".into(),
            "queries whose QNAME is itself a wildcard owner name are not generated (the statement leaves their stream unspecified)".into(),
        ]
    }
    fn real_components() -> Vec<&'static str> {
        vec!["src/server/rrl.rs", "src/server/mod.rs (ReceivedInfo canonicalisation) + query.rs", "src/db (wildcard synthesis, referrals)", "src/message"]
    }
    fn stub_components() -> Vec<&'static str> {
        vec!["simulated peers/addresses (no sockets: requests enter at handle_message)", "Instant -> simulated clock", "RandomState -> keyed deterministic hasher (re-keyable)"]
    }
    fn engine() -> &'static str {
        "E3 simrt-sequential"
    }
    fn expected_probes() -> Vec<&'static str> {
        vec!["c27_b_limited", "c27_b_not_limited_same_name_other_net", "c27_wildcard_same_stream", "c27_mapped_equals_v4", "c27_tcp_or_nonquery_not_limited", "c27_error_categories_share_stream", "c27_v4_lookalike_v6_source"]
    }
}

#[derive(Clone, Debug)]
struct Seen {
    eligible_and_answered: bool,
    net: (bool, u128),
    category: u8,
    name: String,
}

/// Runs the sequence against a fresh limiter; `Some((class, detail, rekey))` on mismatch.
fn run_case(scn: &Scn, hash_key: u64) -> Option<(String, String, bool)> {
    simrt::set_hash_key(hash_key);
    let cat = catalog();
    let reference = Server::new(cat.clone());
    let mut server = Server::new(cat);
    let mut p = RrlParams::new(1, 1, 1, 1).expect("params");
    p.set_slip(scn.slip);
    p.set_size(scn.table_size).expect("size");
    p.set_ipv4_prefix_len(scn.v4_prefix).expect("v4 prefix");
    p.set_ipv6_prefix_len(scn.v6_prefix).expect("v6 prefix");
    server.set_rrl_params(Some(p));
    let mut buf = vec![0u8; 65535];
    let mut earlier: Vec<Seen> = vec![];
    for (i, req) in scn.reqs.iter().enumerate() {
        if i > 0 && req.gap_ms > 0 {
            simrt::advance(Duration::from_millis(req.gap_ms));
        }
        let msg = build(req, i as u16);
        let src = parse_ip(&req.src);
        let transport = if req.tcp { Transport::Tcp } else { Transport::Udp };
        let refn = qz::ask(&reference, &msg, src, transport);
        let got = qz::ask_buf(&server, &msg, src, transport, &mut buf).map(|n| buf[..n].to_vec());
        let eligible = !req.tcp && req.opcode == 0 && refn.is_some();
        let category = refn
            .as_ref()
            .and_then(|r| wire::decode(r).ok())
            // the category follows the *extended* RCODE: BADVERS (16) has 0 in the header's four bits
            .map(|m| match m.ext_rcode() {
                0 => 0u8,
                3 => 1,
                _ => 2,
            })
            .unwrap_or(2);
        if let IpAddr::V6(a) = src {
            let o = a.octets();
            if o[..8].iter().all(|b| *b == 0) && !(o[8..10] == [0, 0] && o[10..12] == [0xff, 0xff]) {
                simrt::probe("c27_v4_lookalike_v6_source");
            }
        }
        let me = Seen {
            eligible_and_answered: eligible,
            net: net_of(src, scn.v4_prefix, scn.v6_prefix),
            category,
            name: if category == 0 { stream_name(&req.qname) } else { String::new() },
        };
        let same_stream = |x: &Seen| x.eligible_and_answered && x.net == me.net && x.category == me.category && x.name == me.name;
        let expect_limited = eligible && earlier.iter().any(same_stream);
        // observe
        let limited = match (&refn, &got) {
            (None, None) => false,
            (None, Some(_)) => return Some(("response-to-responseless-request".into(), format!("request {i}: {req:?}"), false)),
            (Some(_), None) => true,
            (Some(r), Some(g)) => {
                if r == g {
                    // A response that is *truncated anyway* (TC, no records) looks exactly like a
                    // slipped one: with slip 1 nothing can be observed for such a request - it is
                    // counted as an answered member of its stream and not judged itself.
                    let truncated_anyway = matches!(wire::decode(r), Ok(m) if m.tc() && m.answers.is_empty() && m.authority.is_empty());
                    if truncated_anyway && scn.slip != 0 && eligible {
                        simrt::probe("c27_truncated_anyway_not_observable");
                        earlier.push(me);
                        continue;
                    }
                    false
                } else {
                    match wire::decode(g) {
                        Ok(m) if m.tc() && m.answers.is_empty() && m.authority.is_empty() => true,
                        _ => return Some(("response-differs-from-unlimited-server".into(), format!("request {i}: {req:?}"), false)),
                    }
                }
            }
        };
        if limited {
            // slip 0 => dropped, slip 1 => slipped
            if scn.slip == 0 && got.is_some() {
                return Some(("slip0-slipped".into(), format!("request {i}: {req:?}"), false));
            }
            if scn.slip == 1 && got.is_none() {
                return Some(("slip1-dropped".into(), format!("request {i}: {req:?}"), false));
            }
        }
        if limited != expect_limited {
            let detail = format!(
                "request {i} {req:?} (category {category}, net {:?}, stream name '{}') was {} but the stream rule says {}; earlier: {:?}; prefixes v4 /{} v6 /{}",
                me.net,
                me.name,
                if limited { "limited" } else { "not limited" },
                if expect_limited { "limited" } else { "not limited" },
                earlier,
                scn.v4_prefix,
                scn.v6_prefix
            );
            return if limited {
                if !eligible {
                    Some(("ineligible-request-limited".into(), detail, false))
                } else {
                    // could be a 2^-32 QNAME-hash collision: re-key before reporting
                    Some(("limited-across-streams".into(), detail, true))
                }
            } else {
                Some(("same-stream-not-limited".into(), detail, false))
            };
        }
        // probes
        if i + 1 == scn.reqs.len() {
            if limited {
                simrt::probe("c27_b_limited");
                if req.qname.to_ascii_lowercase() != scn.reqs[0].qname.to_ascii_lowercase() && category == 0 {
                    simrt::probe("c27_wildcard_same_stream");
                }
                if req.src.starts_with("::ffff:") != scn.reqs[0].src.starts_with("::ffff:") {
                    simrt::probe("c27_mapped_equals_v4");
                }
                if category == 2 {
                    simrt::probe("c27_error_categories_share_stream");
                }
            } else if eligible && earlier.iter().any(|x| x.eligible_and_answered && x.category == me.category && x.name == me.name && x.net != me.net) {
                simrt::probe("c27_b_not_limited_same_name_other_net");
            }
            if !eligible && refn.is_some() {
                simrt::probe("c27_tcp_or_nonquery_not_limited");
            }
        }
        earlier.push(me);
    }
    None
}
