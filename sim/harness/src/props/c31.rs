//! C31 – reloading keeps every zone on its own latest good data.
//!
//! Real code: the daemon's configuration loader (TOML, duplicate checks, path
//! resolution), `zones::{load,reload}` (mtime check, `$INCLUDE`-capable parser,
//! validation, catalog construction) and the body of the SIGHUP handler
//! (`reload_zones_and_keys`, reached through the `verif_reload` hook), on the
//! simulated file system and clock. Queries enter at `handle_message` (UDP).
use crate::driver::{world_cfg, Prop, Tier};
use crate::util::{chance, pick, range, viol, SplitMix};
use crate::wire;
use crate::{config, run as daemon, zones};
use quandary::server::{ReceivedInfo, Response, Transport};
use quandary_simrt as simrt;
use serde::{Deserialize, Serialize};
use simrt::sched::{ClockPolicy, ExecPlan, ExecRecord, Strategy};
use simrt::{Fault, FaultCfg};
use std::collections::BTreeMap;
use std::net::{IpAddr, Ipv4Addr};
use std::sync::atomic::{AtomicU64, Ordering::SeqCst};
use std::sync::Arc;
use std::time::Duration;

/// (name, class) universe; index = zone id
pub(crate) const UNIVERSE: &[(&str, u16)] = &[("a.", 1), ("b.a.", 1), ("c.b.a.", 1), ("x.", 1), ("a.", 3)];
const PATHS: usize = 2; // each zone has two candidate paths

#[derive(Clone, Debug, Serialize, Deserialize, PartialEq)]
pub enum FileKind {
    /// a valid zone file of this version
    Valid(u32),
    /// unbalanced parenthesis
    Syntax,
    NoSoa,
    NoNs,
    /// a record whose owner lies outside the zone
    OutOfZone,
    Missing,
    Dir,
    /// valid content of this version, but reads fail after k octets
    Eio(u32, usize),
    /// valid content of this version, but the file ends after k octets
    Torn(u32, usize),
    /// valid zone of this version whose validation only *warns* (MX to an in-zone host
    /// without address): must load
    WarningOnly(u32),
    /// a fatal validation error (no apex NS) together with a warning: must not load
    ErrorAndWarning,
    /// a valid main file of this version that `$INCLUDE`s the include file next to it; the
    /// include file holds the marker record (and relies on the includer's origin and TTL)
    WithInclude(u32),
    /// edits of the *include file* next to this zone file (the main file is not touched):
    /// valid with this marker version / syntactically broken / removed
    IncValid(u32),
    IncBroken,
    IncMissing,
    /// the I/O error on this file goes away (transient fault): content and mtime stay as they are
    EioCleared,
    /// an otherwise valid file with one record of another class than the zone's: must not load
    OtherClassRecord,
    /// a file that is valid throughout - for the other class (IN <-> CH): must not load
    AllOtherClass,
}
#[derive(Clone, Debug, Serialize, Deserialize)]
pub struct Edit {
    pub zone: usize,
    pub path: usize,
    pub kind: FileKind,
}
#[derive(Clone, Debug, Serialize, Deserialize)]
pub struct Step {
    /// bit z set: zone z's name is spelled in upper case in this step's configuration (names
    /// are case-insensitive: the zone is the same zone, with the same previous data)
    #[serde(default)]
    pub upper: u8,
    /// configured zones after this step, in `[[zones]]` order: (zone id, path variant)
    pub zones: Vec<(usize, usize)>,
    pub edits: Vec<Edit>,
    /// 0 fine | 1 configuration file is not valid TOML | 2 a zone is configured twice | 3 configuration file missing
    pub config_fault: u8,
    /// seconds the clock advances before the edits (>= 1)
    pub advance_s: u64,
}
#[derive(Clone, Debug, Serialize, Deserialize)]
pub struct Scn {
    pub steps: Vec<Step>,
    pub fs_faults: Vec<(String, u16)>,
    /// query threads run concurrently with every reload (engine E1): each answer must come
    /// from the state before or after the reload, and from the new state once it has returned
    #[serde(default)]
    pub concurrent_queries: usize,
    #[serde(default)]
    pub strategy: String,
    /// 0 = the SIGHUP handler body is called directly (E3); 1 = the whole daemon (`try_running`)
    /// runs as a simulated thread with a configuration file; 2 = the same with the zones given
    /// on the command line (fixed set of zones, class IN)
    #[serde(default)]
    pub daemon: u8,
    /// `[io]` table of the daemon's configuration: (tcp_base_workers, tcp_worker_linger s, udp_workers_per_socket)
    #[serde(default)]
    pub daemon_io: Option<(usize, u64, usize)>,
    /// SIGHUP is raised twice in a row (the deliveries may coalesce)
    #[serde(default)]
    pub double_hup: bool,
    /// the daemon is stopped with SIGINT instead of SIGTERM
    #[serde(default)]
    pub term_sigint: bool,
    /// `[[tsig_keys]]` tables of the configuration from step `.0` on: 1 = one ordinary key,
    /// 2 = a key whose secret is the empty string (legal), 3 = two keys (SHA-1 and SHA-256)
    #[serde(default)]
    pub tsig_keys: (usize, u8),
}
pub struct C31;

pub(crate) fn path_of(zone: usize, variant: usize) -> String {
    if variant == 0 {
        format!("/etc/quandary/z{zone}.zone")
    } else {
        format!("/etc/quandary/alt/z{zone}.zone")
    }
}
pub(crate) fn rel_path_of(zone: usize, variant: usize) -> String {
    // relative paths are resolved against the configuration file's directory; some zones are
    // configured with an absolute path instead
    if (zone + variant) % 3 == 2 {
        return path_of(zone, variant);
    }
    if variant == 0 {
        format!("z{zone}.zone")
    } else {
        format!("alt/z{zone}.zone")
    }
}
pub(crate) fn inc_path_of(zone: usize, variant: usize) -> String {
    if variant == 0 {
        format!("/etc/quandary/z{zone}.inc")
    } else {
        format!("/etc/quandary/alt/z{zone}.inc")
    }
}
pub(crate) fn class_str(c: u16) -> &'static str {
    if c == 3 {
        "CH"
    } else {
        "IN"
    }
}
pub(crate) fn zone_text(zone: usize, kind: &FileKind) -> Option<Vec<u8>> {
    let (name, class) = UNIVERSE[zone];
    let c = class_str(class);
    let soa = |v: u32| format!("@ {c} SOA ns.elsewhere. h.elsewhere. {v} 60 60 60 60\n");
    let ns = format!("@ {c} NS ns.elsewhere.\n");
    let marker = |v: u32| format!("marker {c} TXT \"{name} v{v}\"\n");
    let head = format!("$ORIGIN {name}\n$TTL 60\n");
    let valid = |v: u32| format!("{head}{}{ns}{}", soa(v), marker(v));
    Some(
        match kind {
            FileKind::Valid(v) | FileKind::Eio(v, _) => valid(*v),
            FileKind::WarningOnly(v) => format!("{}mx {c} MX 10 nomail\n", valid(*v)),
            FileKind::ErrorAndWarning => format!("{head}{}{}mx {c} MX 10 nomail\n", soa(9), marker(9)),
            FileKind::Torn(v, k) => {
                // cut somewhere up to the end of the SOA line: by construction never a
                // complete valid zone (no NS at the apex at the very least)
                let t = valid(*v);
                let limit = head.len() + soa(*v).len();
                t[..*k % (limit + 1)].to_string()
            }
            FileKind::Syntax => format!("{head}@ {c} SOA ( ns.elsewhere. h.elsewhere. 9 60 60 60 60\n{ns}{}", marker(9)),
            FileKind::NoSoa => format!("{head}{ns}{}", marker(9)),
            FileKind::NoNs => format!("{head}{}{}", soa(9), marker(9)),
            FileKind::OtherClassRecord => format!("{}version {} TXT \"x\"\n", valid(9), class_str(if class == 3 { 1 } else { 3 })),
            FileKind::AllOtherClass => {
                let o = class_str(if class == 3 { 1 } else { 3 });
                format!("{head}@ {o} SOA ns.elsewhere. h.elsewhere. 9 60 60 60 60\n@ {o} NS ns.elsewhere.\nmarker {o} TXT \"{name} v9\"\n")
            }
            FileKind::OutOfZone => format!("{head}{}{ns}{}outside.elsewhere. {c} TXT \"x\"\n", soa(9), marker(9)),
            // relative include path: resolved against the including file's directory
            FileKind::WithInclude(v) => format!("{head}{}{ns}$INCLUDE z{zone}.inc\n", soa(*v)),
            FileKind::IncValid(iv) => marker(*iv),
            FileKind::IncBroken => format!("marker {c} TXT (\n"),
            FileKind::Missing | FileKind::Dir | FileKind::IncMissing | FileKind::EioCleared => return None,
        }
        .into_bytes(),
    )
}

/// Whether the zone file loads and validates, by construction: (version, marker version).
/// `inc` is the state of the include file next to it (`Some(Some(v))` valid, `Some(None)` broken,
/// `None` absent).
fn loads(kind: &FileKind, inc: Option<&Option<u32>>) -> Option<(u32, u32)> {
    match kind {
        FileKind::Valid(v) | FileKind::WarningOnly(v) => Some((*v, *v)),
        FileKind::WithInclude(v) => match inc {
            Some(Some(iv)) => Some((*v, *iv)),
            _ => None,
        },
        _ => None,
    }
}

/// Harness-side record of what is on the simulated disk.
#[derive(Clone, Debug, Default)]
pub(crate) struct Files {
    pub main: BTreeMap<(usize, usize), FileState>,
    pub inc: BTreeMap<(usize, usize), Option<u32>>,
}

#[derive(Clone, Debug, PartialEq)]
pub(crate) enum Served {
    Data { version: u32, marker: u32, path: usize, mtime_s: u64 },
    ServFail,
}
#[derive(Clone, Debug)]
pub(crate) struct FileState {
    pub kind: FileKind,
    pub mtime_s: u64,
}

impl Prop for C31 {
    const ID: &'static str = "C31";
    type Scn = Scn;
    fn runs(tier: Tier) -> u64 {
        match tier {
            Tier::Quick => 600_000,
            Tier::Thorough => 40_000_000,
        }
    }
    fn gen(r: &mut SplitMix, _t: Tier, _i: u64) -> Scn {
        let nsteps = range(r, 2, 6) as usize;
        let mut steps = vec![];
        let mut cur: Vec<(usize, usize)> = vec![];
        let mut version = 0u32;
        let mut with_inc: Vec<(usize, usize)> = vec![];
        let mut eio: Vec<(usize, usize)> = vec![];
        for si in 0..nsteps {
            // configuration change
            let mut zones = cur.clone();
            let changes = if si == 0 { range(r, 1, 4) } else { range(r, 0, 2) };
            for _ in 0..changes {
                match r.below(5) {
                    0 | 1 => {
                        let z = r.below(UNIVERSE.len() as u64) as usize;
                        if !zones.iter().any(|x| x.0 == z) {
                            let pos = r.below(zones.len() as u64 + 1) as usize;
                            zones.insert(pos, (z, r.below(PATHS as u64) as usize));
                        }
                    }
                    2 => {
                        if !zones.is_empty() {
                            let i = r.below(zones.len() as u64) as usize;
                            zones.remove(i);
                        }
                    }
                    3 => {
                        if !zones.is_empty() {
                            let i = r.below(zones.len() as u64) as usize;
                            zones[i].1 = 1 - zones[i].1;
                        }
                    }
                    _ => {
                        if zones.len() > 1 {
                            let i = r.below(zones.len() as u64) as usize;
                            let z = zones.remove(i);
                            let pos = r.below(zones.len() as u64 + 1) as usize;
                            zones.insert(pos, z);
                        }
                    }
                }
            }
            // file edits: mostly on configured zones
            let mut edits = vec![];
            let nedits = range(r, 0, 3) + if si == 0 { 2 } else { 0 };
            for _ in 0..nedits {
                let (zone, path) = if !zones.is_empty() && chance(r, 85) { *pick(r, &zones) } else { (r.below(UNIVERSE.len() as u64) as usize, r.below(PATHS as u64) as usize) };
                version += 1;
                let mut kind = match r.below(26) {
                    16 => FileKind::WarningOnly(version),
                    17 => FileKind::ErrorAndWarning,
                    0..=7 => FileKind::Valid(version),
                    8 => FileKind::Syntax,
                    9 => FileKind::NoSoa,
                    10 => FileKind::NoNs,
                    11 => FileKind::OutOfZone,
                    24 => FileKind::OtherClassRecord,
                    25 => FileKind::AllOtherClass,
                    12 => FileKind::Missing,
                    13 => FileKind::Dir,
                    14 => FileKind::Eio(version, range(r, 0, 100) as usize),
                    15 => FileKind::Torn(version, range(r, 0, 100) as usize),
                    18 | 19 => FileKind::WithInclude(version),
                    20 | 21 => FileKind::IncValid(version),
                    22 => if chance(r, 50) { FileKind::IncBroken } else { FileKind::IncMissing },
                    _ => FileKind::EioCleared,
                };
                // include edits and cleared I/O errors go where they matter, when there is such a place
                let (mut zone, mut path) = (zone, path);
                match kind {
                    FileKind::IncValid(_) | FileKind::IncBroken | FileKind::IncMissing => {
                        if !with_inc.is_empty() {
                            (zone, path) = *pick(r, &with_inc);
                        }
                    }
                    FileKind::EioCleared => {
                        if let Some(zp) = eio.pop() {
                            (zone, path) = zp;
                        } else {
                            kind = FileKind::Valid(version);
                        }
                    }
                    FileKind::WithInclude(_) => with_inc.push((zone, path)),
                    FileKind::Eio(..) => eio.push((zone, path)),
                    _ => {}
                }
                if !matches!(kind, FileKind::Eio(..) | FileKind::IncValid(_) | FileKind::IncBroken | FileKind::IncMissing | FileKind::EioCleared) {
                    // the main file was replaced: a pending I/O error on it is gone with it
                    eio.retain(|zp| *zp != (zone, path));
                }
                edits.push(Edit { zone, path, kind });
            }
            steps.push(Step { upper: if chance(r, 25) { r.below(32) as u8 } else { 0 }, zones: zones.clone(), edits, config_fault: if si > 0 && chance(r, 10) { range(r, 1, 3) as u8 } else { 0 }, advance_s: range(r, 1, 3) });
            if steps.last().unwrap().config_fault == 0 {
                cur = zones;
            }
        }
        let mut fs_faults = vec![];
        if chance(r, 30) {
            fs_faults.push(("fs_short_read".to_string(), 300));
        }
        // fs_eintr_read is deliberately not injected here: the zone-file parser reports EINTR as an
        // I/O error instead of retrying (observed; see DESIGN.md), which legitimately makes a load
        // fail and would only blur the per-zone expectation. C24 exercises EINTR on the parser.
        let concurrent_queries = if chance(r, 25) { range(r, 1, 3) as usize } else { 0 };
        let strategy = pick(r, &["random", "random", "pct:2", "pct:3"]).to_string();
        // whole-daemon mode in a sixth of the runs (it is about 30 times more expensive per run)
        let daemon = if chance(r, 17) { if chance(r, 25) { 2 } else { 1 } } else { 0 };
        let mut daemon_io = None;
        let (mut double_hup, mut term_sigint) = (false, false);
        if daemon != 0 {
            if chance(r, 60) {
                daemon_io = Some((r.below(3) as usize, *pick(r, &[0u64, 1, 15]), range(r, 1, 3) as usize));
            }
            double_hup = chance(r, 20);
            term_sigint = chance(r, 30);
            for (k, rate) in [("udp_loss", 30), ("udp_dup", 50), ("udp_delay", 100), ("udp_reorder", 100), ("eintr_udp_recv", 50), ("eintr_udp_send", 50), ("udp_send_error", 30), ("spurious_wakeup", 20), ("eintr_poll", 50)] {
                if chance(r, 25) {
                    fs_faults.push((k.to_string(), rate));
                }
            }
        }
        let tsig_keys = if chance(r, 25) { (r.below(nsteps as u64) as usize, range(r, 1, 3) as u8) } else { (0, 0) };
        Scn { steps, fs_faults, concurrent_queries, strategy, daemon, daemon_io, double_hup, term_sigint, tsig_keys }
    }
    fn plan(r: &mut SplitMix, s: &Scn) -> ExecPlan {
        let strategy = if s.daemon != 0 {
            crate::parse_strategy(&s.strategy, 3000)
        } else if s.concurrent_queries > 0 {
            crate::parse_strategy(&s.strategy, 300)
        } else {
            Strategy::Random
        };
        ExecPlan { seed: r.next(), strategy, clock: ClockPolicy::Des, max_steps: if s.daemon != 0 { 2_000_000 } else { 400_000 } }
    }
    fn run(scn: &Scn) {
        if scn.daemon != 0 {
            super::c31_daemon::run(scn)
        } else {
            run(scn)
        }
    }
    fn shrink(s: &Scn) -> Vec<Scn> {
        let mut out = vec![];
        if s.steps.len() > 1 {
            let mut c = s.clone();
            c.steps.pop();
            out.push(c);
        }
        for i in 0..s.steps.len() {
            for j in 0..s.steps[i].edits.len() {
                let mut c = s.clone();
                c.steps[i].edits.remove(j);
                out.push(c);
            }
            for j in 0..s.steps[i].zones.len() {
                let mut c = s.clone();
                let z = c.steps[i].zones.remove(j).0;
                // keep later steps consistent: the zone stays removed unless re-added there
                let _ = z;
                out.push(c);
            }
            if s.steps[i].config_fault != 0 {
                let mut c = s.clone();
                c.steps[i].config_fault = 0;
                out.push(c);
            }            if s.steps[i].upper != 0 {
                let mut c = s.clone();
                c.steps[i].upper = 0;
                out.push(c);
            }
        }
        if !s.fs_faults.is_empty() {
            let mut c = s.clone();
            c.fs_faults.clear();
            out.push(c);
        }
        if s.concurrent_queries > 0 {
            let mut c = s.clone();
            c.concurrent_queries -= 1;
            out.push(c);
        }
        if s.daemon != 0 {
            for i in 0..s.fs_faults.len() {
                let mut c = s.clone();
                c.fs_faults.remove(i);
                out.push(c);
            }
            if s.double_hup {
                let mut c = s.clone();
                c.double_hup = false;
                out.push(c);
            }
            if s.daemon_io.is_some() {
                let mut c = s.clone();
                c.daemon_io = None;
                out.push(c);
            }
        }
        out
    }
    fn nontrivial(s: &Scn, _r: &ExecRecord) -> bool {
        s.steps.iter().any(|st| st.edits.iter().any(|e| !matches!(e.kind, FileKind::Valid(_))) || st.config_fault != 0)
    }
    fn case_hash(s: &Scn, _r: &ExecRecord) -> u64 {
        let mut h = 0xcbf29ce484222325u64;
        for b in serde_json::to_string(s).unwrap_or_default().bytes() {
            h = (h ^ b as u64).wrapping_mul(0x100000001b3);
        }
        h
    }
    fn rule() -> String {
        "one execution = one history of 2-6 steps; each step edits the configuration (add/remove nested zones of a 5-zone universe incl. a CH-class zone, change a zone's path, reorder, respell a zone's name in upper case) and zone files (valid new version, syntax error, no SOA, no NS, out-of-zone record, a record of another class than the zone's, a file valid only for the other class, missing, directory, EIO after k octets - possibly transient: cleared later with content and mtime unchanged -, torn after k octets, unchanged, a main file that $INCLUDEs a second file holding the marker record, and edits of that include file alone: valid / broken / removed), sometimes breaks the configuration file itself (invalid TOML, duplicate zone, missing), then reloads - by calling the SIGHUP handler body, or (a sixth of the runs) by raising SIGHUP on the whole simulated daemon, started from a configuration file or from command-line zones - and queries every zone of the universe (marker TXT and SOA, own class); optional short reads on every file read; in a quarter of the runs 1-3 query threads run concurrently with every reload under a seeded schedule (random / PCT) and each of their answers must come from the state before or after that reload, and from the new state once the reload has returned. Non-trivial = at least one failing file or configuration; distinct = distinct scenario".into()
    }
    fn assumptions() -> Vec<String> {
        vec![
            "every harness write stamps a strictly larger mtime from the simulated wall clock ('content changed but mtime did not' is the documented mtime design, not a violation)".into(),
            "a zone whose main file is unchanged since it was loaded may be skipped (the loader's mtime design) or reloaded: when an included file changed meanwhile, both the kept data and the newly loaded data are accepted, and the model continues from whichever the server shows".into(),
            "handler-body mode (five sixths of the runs): signal delivery and the signals.forever() loop are stubbed, the harness calls the handler body; whole-daemon mode (one sixth): try_running itself runs, only the signal source is simulated".into(),
            "whole-daemon mode: edits happen only while the signal loop is idle; with datagram loss or failing sends injected, a query left unanswered after four attempts is no observation (counted by probe c31d_query_unanswered)".into(),
            "a torn or EIO-affected file counts as 'failed to load' only when by construction it cannot be a complete valid zone; cut points that leave a complete valid zone are not generated as failures".into(),
        ]
    }
    fn real_components() -> Vec<&'static str> {
        vec!["src/bin/quandaryd/config.rs (load_from_path, load_from_args, bind_provider)", "src/bin/quandaryd/zones.rs (load, reload, check_mtime, load_and_validate_zone)", "src/bin/quandaryd/run.rs (reload_zones_and_keys; in whole-daemon mode all of try_running: start-up, signal loop, SIGHUP arm, graceful shutdown)", "src/io/blocking.rs + src/thread.rs (whole-daemon mode: UDP workers, listener, pool)", "src/zone_file (fs::Parser and the record parser)", "src/db (zone, validation, catalog)", "src/server (set_catalog, query answering)"]
    }
    fn stub_components() -> Vec<&'static str> {
        vec!["file system -> simrt::fs (in-memory, harness-stamped mtimes, EIO/torn/short-read/EINTR faults)", "signal source (signal_hook iterator -> simrt::signal) and process start-up (clap, env_logger)", "sockets: handler-body mode sends queries to handle_message; whole-daemon mode uses simrt::net (simulated UDP/TCP)", "threads, locks, clocks -> simrt (whole-daemon mode)"]
    }
    fn engine() -> &'static str {
        "E3 simrt-sequential (+ E1 query threads during reloads in a quarter of the runs; whole daemon on E1 in a sixth of the runs)"
    }
    fn expected_probes() -> Vec<&'static str> {
        vec!["c31_reload_failed_as_a_whole", "c31_zone_kept_old_data", "c31_zone_servfail", "c31_mtime_skip", "c31_zone_removed", "c31_child_failed_parent_served", "c31_path_changed", "c31_concurrent_reload", "c31_concurrent_query_saw_old_state", "c31_loaded_with_include", "c31_transient_eio_cleared", "c31d_daemon_runs", "c31d_double_sighup", "c31_config_with_tsig_keys"]
    }
}

pub(crate) fn query(name: &str, qtype: u16, class: u16) -> Vec<u8> {
    wire::query_full(0x3131, &wire::name(name), qtype, class, 0, None)
}

#[derive(Debug, PartialEq, Clone)]
pub(crate) enum Obs {
    /// NOERROR with the marker text / SOA serial
    Answer(String),
    /// NXDOMAIN with the SOA serial of the zone that answered
    NxDomain(u32),
    Rcode(u8),
    NoResponse,
    Garbled(String),
}

pub(crate) fn observe(server: &daemon::Server, qname: &str, qtype: u16, class: u16) -> Obs {
    let mut buf = vec![0u8; 4096];
    let n = match server.handle_message(&query(qname, qtype, class), ReceivedInfo::new(IpAddr::V4(Ipv4Addr::LOCALHOST), Transport::Udp), &mut buf) {
        Response::Single(n) => n,
        Response::None => return Obs::NoResponse,
    };
    decode_obs(&buf[..n])
}

/// What a response octet string shows of the zone data it was computed from.
pub(crate) fn decode_obs(resp: &[u8]) -> Obs {
    let m = match wire::decode(resp) {
        Ok(m) => m,
        Err(e) => return Obs::Garbled(format!("{e:?}")),
    };
    match m.rcode() {
        0 => match m.answers.first() {
            Some(rr) if rr.rtype == wire::T_TXT => Obs::Answer(String::from_utf8_lossy(&wire::txt_strings(rr).concat()).to_string()),
            Some(rr) if rr.rtype == wire::T_SOA => Obs::Answer(format!("serial {}", wire::soa_serial(rr).unwrap_or(0))),
            _ => Obs::Garbled("NOERROR without answer".into()),
        },
        3 => match m.authority.iter().find(|r| r.rtype == wire::T_SOA).and_then(wire::soa_serial) {
            Some(s) => Obs::NxDomain(s),
            None => Obs::Garbled("NXDOMAIN without SOA".into()),
        },
        r => Obs::Rcode(r),
    }
}

fn is_suffix(zone: &str, name: &str) -> bool {
    let z = wire::name(zone);
    let n = wire::name(name);
    n.len() >= z.len() && n[n.len() - z.len()..].iter().zip(&z).all(|(a, b)| a.eq_ignore_ascii_case(b))
}

/// What queries for zone `z` of the universe must see when `served` is the served state:
/// (marker TXT, apex SOA).
pub(crate) fn expected(served: &BTreeMap<usize, Served>, z: usize) -> (Obs, Obs) {
    let (zname, class) = UNIVERSE[z];
    let marker = format!("marker.{zname}");
    // the entry that must answer: longest configured suffix of the same class
    let owner = served
        .iter()
        .filter(|(k, _)| UNIVERSE[**k].1 == class && is_suffix(UNIVERSE[**k].0, &marker))
        .max_by_key(|(k, _)| wire::name(UNIVERSE[**k].0).len());
    match owner {
        None => (Obs::Rcode(5), Obs::Rcode(5)),
        Some((_, Served::ServFail)) => (Obs::Rcode(2), Obs::Rcode(2)),
        Some((k, Served::Data { version, marker, .. })) if *k == z => (Obs::Answer(format!("{zname} v{marker}")), Obs::Answer(format!("serial {version}"))),
        Some((k, Served::Data { version, .. })) => {
            if served.get(&z).is_none() && UNIVERSE[*k].0 != zname {
                simrt::probe("c31_child_failed_parent_served");
            }
            (Obs::NxDomain(*version), Obs::NxDomain(*version))
        }
    }
}

/// The reference model: the served state after a successful reload of `step`'s configuration.
/// Returns the served state after the reload and, for zones whose main file is unchanged since it
/// was loaded (the loader *may* skip them: its mtime design) but whose reload would now give
/// something else (an included file changed), the alternative state: the property allows both
/// "kept as it was" and "newly loaded", so neither skipping nor reloading such a zone may alarm.
pub(crate) fn next_model(before: &BTreeMap<usize, Served>, step: &Step, files: &Files) -> (BTreeMap<usize, Served>, BTreeMap<usize, Served>) {
    let mut served = BTreeMap::new();
    let mut alt = BTreeMap::new();
    for (z, pv) in &step.zones {
        let prev = before.get(z).cloned();
        let file = files.main.get(&(*z, *pv));
        let inc = files.inc.get(&(*z, *pv));
        let keep = |prev: &Option<Served>| prev.clone().unwrap_or(Served::ServFail);
        let new = match file {
            None => keep(&prev),
            Some(f) if matches!(f.kind, FileKind::Missing) => keep(&prev),
            Some(f) => {
                // unchanged since it was loaded from the same path: skipped, keeps the data
                let skip = matches!(&prev, Some(Served::Data { path, mtime_s, .. }) if *path == *pv && f.mtime_s <= *mtime_s);
                if skip {
                    simrt::probe("c31_mtime_skip");
                    if let (Some((v, m)), Some(Served::Data { version, marker, .. })) = (loads(&f.kind, inc), &prev) {
                        if (v, m) != (*version, *marker) {
                            alt.insert(*z, Served::Data { version: v, marker: m, path: *pv, mtime_s: f.mtime_s });
                            simrt::probe("c31_skip_or_reload_both_allowed");
                        }
                    }
                    keep(&prev)
                } else {
                    match loads(&f.kind, inc) {
                        Some((v, m)) => {
                            if m != v {
                                simrt::probe("c31_loaded_with_include");
                            }
                            Served::Data { version: v, marker: m, path: *pv, mtime_s: f.mtime_s }
                        }
                        None => keep(&prev),
                    }
                }
            }
        };
        if let (Some(Served::Data { version, .. }), Served::Data { version: v2, .. }) = (&prev, &new) {
            if version == v2 && file.map(|f| loads(&f.kind, inc).is_none()).unwrap_or(true) {
                simrt::probe("c31_zone_kept_old_data");
            }
        }
        if let (Some(Served::Data { path, .. }), Served::Data { path: p2, .. }) = (&prev, &new) {
            if path != p2 {
                simrt::probe("c31_path_changed");
            }
        }
        if new == Served::ServFail {
            simrt::probe("c31_zone_servfail");
        }
        served.insert(*z, new);
    }
    (served, alt)
}

/// The `[[tsig_keys]]` tables of the configuration at step `si` (keys are reloaded together with
/// the zones; whatever they are, they must not change what any zone serves).
pub(crate) fn keys_toml(scn: &Scn, si: usize) -> String {
    if scn.tsig_keys.1 == 0 || si < scn.tsig_keys.0 {
        return String::new();
    }
    simrt::probe("c31_config_with_tsig_keys");
    match scn.tsig_keys.1 {
        1 => "[[tsig_keys]]\nname = \"k1.example.\"\nalgorithm = \"hmac-sha256\"\nsecret = \"c2VjcmV0IHNlY3JldCBzZWNyZXQ=\"\n".to_string(),
        2 => "[[tsig_keys]]\nname = \"empty.example.\"\nalgorithm = \"hmac-sha256\"\nsecret = \"\"\n".to_string(),
        _ => "[[tsig_keys]]\nname = \"k1.example.\"\nalgorithm = \"hmac-sha1\"\nsecret = \"AAECAwQFBgcICQ==\"\n[[tsig_keys]]\nname = \"k2.example.\"\nalgorithm = \"hmac-sha256\"\nsecret = \"/////w==\"\n".to_string(),
    }
}

/// `served` with every alternative applied.
pub(crate) fn with_alts(served: &BTreeMap<usize, Served>, alt: &BTreeMap<usize, Served>) -> BTreeMap<usize, Served> {
    let mut s = served.clone();
    for (z, a) in alt {
        s.insert(*z, a.clone());
    }
    s
}

/// Applies the file edits of `step` to the simulated file system (mtime = `now_s`).
pub(crate) fn apply_edits(step: &Step, now_s: u64, files: &mut Files) {
    use simrt::fs;
    for e in &step.edits {
        let key = (e.zone, e.path);
        // edits that leave the main file alone
        match &e.kind {
            FileKind::IncValid(iv) => {
                fs::write(inc_path_of(e.zone, e.path), &zone_text(e.zone, &e.kind).unwrap());
                files.inc.insert(key, Some(*iv));
                continue;
            }
            FileKind::IncBroken => {
                fs::write(inc_path_of(e.zone, e.path), &zone_text(e.zone, &e.kind).unwrap());
                files.inc.insert(key, None);
                continue;
            }
            FileKind::IncMissing => {
                fs::remove(inc_path_of(e.zone, e.path));
                files.inc.remove(&key);
                simrt::count_fault(Fault::FsEnoent);
                continue;
            }
            FileKind::EioCleared => {
                if let Some(f) = files.main.get_mut(&key) {
                    if let FileKind::Eio(v, _) = f.kind {
                        fs::set_eio(path_of(e.zone, e.path), None);
                        f.kind = FileKind::Valid(v);
                        simrt::probe("c31_transient_eio_cleared");
                    }
                }
                continue;
            }
            _ => {}
        }
        let p = path_of(e.zone, e.path);
        fs::remove(&p);
        match &e.kind {
            FileKind::Missing => {
                simrt::count_fault(Fault::FsEnoent);
            }
            FileKind::Dir => {
                fs::mkdir(&p);
                simrt::count_fault(Fault::FsEisdir);
            }
            k => {
                fs::write(&p, &zone_text(e.zone, k).unwrap());
                if let FileKind::Eio(_, at) = k {
                    // the error strikes at or before the end of the file: the load always fails
                    let len = zone_text(e.zone, k).unwrap().len();
                    fs::set_eio(&p, Some(*at % (len + 1)));
                    simrt::count_fault(Fault::FsEioAt);
                }
                if matches!(k, FileKind::Torn(..)) {
                    simrt::count_fault(Fault::FsTorn);
                }
            }
        }
        files.main.insert(key, FileState { kind: e.kind.clone(), mtime_s: now_s });
    }
}

/// Writes (or, for configuration fault 3, removes) the configuration file of `step`;
/// `preamble` holds the top-level keys and is followed by `tail` tables.
pub(crate) fn write_config(step: &Step, cfg_path: &std::path::Path, preamble: &str, tail: &str) {
    use simrt::fs;
    let mut toml = String::from(preamble);
    if step.zones.is_empty() {
        toml.push_str("zones = []\n");
    }
    for (z, pv) in &step.zones {
        let (name, class) = UNIVERSE[*z];
        let name = if step.upper >> *z & 1 == 1 { name.to_ascii_uppercase() } else { name.to_string() };
        toml.push_str(&format!("[[zones]]\nname = \"{name}\"\nclass = \"{}\"\npath = \"{}\"\n", class_str(class), rel_path_of(*z, *pv)));
    }
    match step.config_fault {
        1 => toml.push_str("[[zones\nname = \n"),
        2 => {
            let (z, pv) = step.zones.first().copied().unwrap_or((0, 0));
            let (name, class) = UNIVERSE[z];
            for _ in 0..(if step.zones.is_empty() { 2 } else { 1 }) {
                toml.push_str(&format!("[[zones]]\nname = \"{name}\"\nclass = \"{}\"\npath = \"{}\"\n", class_str(class), rel_path_of(z, pv)));
            }
        }
        _ => {}
    }
    toml.push_str(tail);
    if step.config_fault == 3 {
        fs::remove(cfg_path);
    } else {
        fs::write(cfg_path, toml.as_bytes());
    }
}

fn run(scn: &Scn) {
    let mut faults = FaultCfg::none();
    for (k, rate) in &scn.fs_faults {
        if let Some(f) = Fault::from_name(k) {
            faults = faults.with(f, *rate);
        }
    }
    simrt::start(world_cfg(5, faults));
    use simrt::fs;
    fs::mkdir("/etc/quandary");
    fs::mkdir("/etc/quandary/alt");
    let cfg_path = std::path::Path::new("/etc/quandary/config.toml");

    let mut files = Files::default();
    let mut served: BTreeMap<usize, Served> = BTreeMap::new();
    let mut state: Option<(Arc<daemon::Server>, Arc<zones::Catalog>)> = None;

    for (si, step) in scn.steps.iter().enumerate() {
        simrt::advance(Duration::from_secs(step.advance_s.max(1)));
        let now_s = simrt::time::wall_secs();
        apply_edits(step, now_s, &mut files);
        write_config(step, cfg_path, "", &keys_toml(scn, si));
        // --- reference model of the state after this step (the outcome depends only on the
        //     configuration and the files, both known before the reload runs) ------------------
        let expect_ok = step.config_fault == 0;
        let served_before = served.clone();
        let (mut served_after, alts) = if expect_ok { next_model(&served_before, step, &files) } else { (served_before.clone(), BTreeMap::new()) };
        let served_after_alt = with_alts(&served_after, &alts);
        // --- (re)load, optionally with query threads running concurrently ---------------------
        let reload_returned = Arc::new(AtomicU64::new(u64::MAX));
        let mut query_threads = vec![];
        if let (Some((server, _)), true) = (state.as_ref(), scn.concurrent_queries > 0) {
            let before: Vec<(Obs, Obs)> = (0..UNIVERSE.len()).map(|z| expected(&served_before, z)).collect();
            let after: Vec<(Obs, Obs)> = (0..UNIVERSE.len()).map(|z| expected(&served_after, z)).collect();
            let after_alt: Vec<(Obs, Obs)> = (0..UNIVERSE.len()).map(|z| expected(&served_after_alt, z)).collect();
            for t in 0..scn.concurrent_queries {
                let (server, before, after, after_alt, returned) = (server.clone(), before.clone(), after.clone(), after_alt.clone(), reload_returned.clone());
                query_threads.push(shuttle::thread::spawn(move || {
                    for round in 0..2 {
                        for (z, (zname, class)) in UNIVERSE.iter().enumerate() {
                            if (z + t + round) % 2 == 1 {
                                continue; // each thread asks about a different half per round
                            }
                            let invoked = simrt::stamp();
                            let got = observe(&server, &format!("marker.{zname}"), wire::T_TXT, *class);
                            let fresh = invoked > returned.load(SeqCst);
                            let ok = got == after[z].0 || got == after_alt[z].0 || (!fresh && got == before[z].0);
                            if got == before[z].0 && before[z].0 != after[z].0 {
                                simrt::probe("c31_concurrent_query_saw_old_state");
                            }
                            if !ok {
                                viol(
                                    if fresh { "stale-answer-after-reload-returned" } else { "answer-from-neither-old-nor-new-state" },
                                    format!("step {si}, query thread {t}: marker.{zname} TXT class {class} got {got:?}; before the reload {:?}, after it {:?}; reload had returned: {fresh}", before[z].0, after[z].0),
                                );
                                return;
                            }
                        }
                    }
                }));
            }
            simrt::probe("c31_concurrent_reload");
        }
        let reloaded_ok = match state.take() {
            None => match config::load_from_path(cfg_path, false) {
                Ok(c) => {
                    let catalog = Arc::new(zones::load(c.zones));
                    state = Some((Arc::new(daemon::Server::new(catalog.clone())), catalog));
                    true
                }
                Err(_) => false,
            },
            Some((server, catalog)) => match daemon::verif_reload(cfg_path, &server, &catalog) {
                Ok(new_catalog) => {
                    state = Some((server, new_catalog));
                    true
                }
                Err(_) => {
                    state = Some((server, catalog));
                    false
                }
            },
        };
        reload_returned.store(simrt::stamp(), SeqCst);
        for h in query_threads {
            let _ = h.join();
        }
        if crate::util::has_violation() {
            break;
        }
        if reloaded_ok != expect_ok {
            viol("reload-result", format!("step {si}: reload returned ok={reloaded_ok}, expected ok={expect_ok} (config fault {})", step.config_fault));
            break;
        }
        if reloaded_ok {
            if served_before.keys().any(|z| !served_after.contains_key(z)) {
                simrt::probe("c31_zone_removed");
            }
        } else {
            simrt::probe("c31_reload_failed_as_a_whole");
        }
        // --- a zone the loader may skip or reload: find out which it did, and go on from there ---
        if let Some((server, _)) = state.as_ref() {
            for (z, a) in &alts {
                let (zname, class) = UNIVERSE[*z];
                let got = observe(server, &format!("marker.{zname}"), wire::T_TXT, class);
                if got == expected(&served_after_alt, *z).0 && got != expected(&served_after, *z).0 {
                    served_after.insert(*z, a.clone());
                    simrt::probe("c31_unchanged_zone_was_reloaded");
                }
            }
        }
        served = served_after;
        // --- observe every zone of the universe -----------------------------------------------
        let Some((server, _)) = state.as_ref() else {
            // the initial configuration could not be loaded: the daemon would not have started
            continue;
        };
        for (z, (zname, class)) in UNIVERSE.iter().enumerate() {
            let marker = format!("marker.{zname}");
            let (exp_txt, exp_soa) = expected(&served, z);
            let got_txt = observe(server, &marker, wire::T_TXT, *class);
            if got_txt != exp_txt {
                viol(
                    "zone-served-from-wrong-data",
                    format!("after step {si}: {marker} TXT class {class}: got {got_txt:?}, expected {exp_txt:?}; model {served:?}; step {step:?}"),
                );
                break;
            }
            let got_soa = observe(server, zname, wire::T_SOA, *class);
            if got_soa != exp_soa {
                viol(
                    "zone-served-from-wrong-data",
                    format!("after step {si}: {zname} SOA class {class}: got {got_soa:?}, expected {exp_soa:?}; model {served:?}; step {step:?}"),
                );
                break;
            }
        }
        if crate::util::has_violation() {
            break;
        }
    }
    simrt::finish();
}
