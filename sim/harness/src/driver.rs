//! The generic check driver: seeded exploration over 16 OS threads, failure
//! capture, minimisation, replay files, known findings and evidence.
use crate::util::{self, SplitMix, Violation};
use quandary_simrt as simrt;
use serde::de::DeserializeOwned;
use serde::Serialize;
use serde_json::{json, Value};
use simrt::sched::{self, ClockPolicy, ExecPlan, ExecRecord, SimScheduler, Step, Strategy};
use std::any::Any;
use std::cell::{Cell, RefCell};
use std::collections::{BTreeMap, HashSet};
use std::rc::Rc;
use std::sync::atomic::{AtomicBool, AtomicU64, Ordering::SeqCst};
use std::sync::{Arc, Mutex};
use std::time::Instant;

#[derive(Clone, Copy, PartialEq, Eq, Debug)]
pub enum Tier {
    Quick,
    Thorough,
}
impl Tier {
    pub fn name(self) -> &'static str {
        match self {
            Tier::Quick => "quick",
            Tier::Thorough => "thorough",
        }
    }
}

/// One property check.
pub trait Prop: 'static {
    const ID: &'static str;
    const LEVEL: &'static str = "exploration";
    type Scn: Serialize + DeserializeOwned + Clone + Send + Sync + 'static;

    /// Number of executions per tier (fixed, never wall-clock bounded).
    fn runs(tier: Tier) -> u64;
    /// Scenario of run `idx` from its private PRNG.
    fn gen(r: &mut SplitMix, tier: Tier, idx: u64) -> Self::Scn;
    /// Scheduling strategy, clock policy and step bound of the run.
    fn plan(r: &mut SplitMix, scn: &Self::Scn) -> ExecPlan;
    /// The execution body (main task). Must call `simrt::start` first.
    fn run(scn: &Self::Scn);
    /// Strictly simpler candidate scenarios, most aggressive first.
    fn shrink(_scn: &Self::Scn) -> Vec<Self::Scn> {
        vec![]
    }
    /// Verdict when the step bound is exhausted: `Some` = violation, `None` =
    /// inconclusive (counted in the evidence, never reported).
    fn bound_exceeded(_scn: &Self::Scn, _plan: &ExecPlan) -> Option<Violation> {
        None
    }
    /// Whether an execution counts as non-trivial for the evidence.
    fn nontrivial(_scn: &Self::Scn, rec: &ExecRecord) -> bool {
        rec.preemptions > 0
    }
    /// Hash identifying the explored case (default: the schedule).
    fn case_hash(scn: &Self::Scn, rec: &ExecRecord) -> u64 {
        let s = serde_json::to_string(scn).unwrap_or_default();
        let mut h = rec.hash();
        for b in s.bytes() {
            h = (h ^ b as u64).wrapping_mul(0x100000001b3);
        }
        h
    }
    fn stack_size() -> usize {
        1 << 20
    }
    /// Signature under which a violation is matched against known findings.
    fn signature(v: &Violation, _scn: &Self::Scn) -> String {
        v.class.clone()
    }
    fn rule() -> String;
    fn assumptions() -> Vec<String> {
        vec![]
    }
    fn real_components() -> Vec<&'static str>;
    fn stub_components() -> Vec<&'static str>;
    fn engine() -> &'static str;
    /// Probes expected to be non-zero in the thorough tier.
    fn expected_probes() -> Vec<&'static str> {
        vec![]
    }
    /// Called once per process before any execution (calibration etc.).
    fn prepare() {}
    /// Extra coverage keys computed from merged stats.
    fn extra_coverage(_stats: &simrt::Stats) -> Value {
        json!({})
    }
}

/// In-flight table shared with the guarding parent process (see `guard.rs`): slot k holds
/// run index + 1 of the execution worker slot k is running, or 0. A plain file written with
/// `write_at`: the parent reads it after this process has died or stopped making progress.
pub struct StatusFile {
    _file: std::fs::File,
    base: *mut std::sync::atomic::AtomicU64,
}
unsafe impl Send for StatusFile {}
unsafe impl Sync for StatusFile {}
impl StatusFile {
    /// Maps (creating it if need be) the table at `path` into memory, shared between processes:
    /// updating a slot is one store, no system call.
    pub fn open(path: &std::path::Path) -> Option<StatusFile> {
        use std::os::unix::io::AsRawFd;
        let file = std::fs::OpenOptions::new().read(true).write(true).create(true).open(path).ok()?;
        file.set_len((STATUS_SLOTS * 8) as u64).ok()?;
        // SAFETY: a fresh shared mapping of a file we own, of exactly the size we use
        let p = unsafe { libc::mmap(std::ptr::null_mut(), STATUS_SLOTS * 8, libc::PROT_READ | libc::PROT_WRITE, libc::MAP_SHARED, file.as_raw_fd(), 0) };
        if p == libc::MAP_FAILED {
            return None;
        }
        Some(StatusFile { _file: file, base: p as *mut std::sync::atomic::AtomicU64 })
    }
    fn slot(&self, k: usize) -> &std::sync::atomic::AtomicU64 {
        // SAFETY: k < STATUS_SLOTS, the mapping is page-aligned and lives as long as self
        unsafe { &*self.base.add(k % STATUS_SLOTS) }
    }
    pub fn set(&self, slot: usize, v: u64) {
        self.slot(slot).store(v, SeqCst);
    }
    pub fn get(&self, slot: usize) -> u64 {
        self.slot(slot).load(SeqCst)
    }
}
pub const STATUS_SLOTS: usize = 64;
static STATUS: std::sync::OnceLock<Option<StatusFile>> = std::sync::OnceLock::new();
/// Called once by `main` in child mode.
pub fn set_status_file(path: Option<&std::path::Path>) {
    let _ = STATUS.set(path.and_then(StatusFile::open));
}
fn status_set(slot: usize, v: u64) {
    if let Some(Some(f)) = STATUS.get() {
        f.set(slot, v);
    }
}

thread_local! {
    static CUR_SCN: RefCell<Option<Rc<dyn Any>>> = const { RefCell::new(None) };
    static TRACE: Cell<bool> = const { Cell::new(false) };
    static LAST_EVENT_HASH: Cell<u64> = const { Cell::new(0) };
}

/// World configuration for the current execution (tracing on in replays).
pub fn world_cfg(hash_key: u64, faults: simrt::FaultCfg) -> simrt::WorldCfg {
    simrt::WorldCfg { hash_key, faults, trace: TRACE.with(|t| t.get()) }
}

fn shuttle_cfg<P: Prop>() -> shuttle::Config {
    let mut cfg = shuttle::Config::new();
    cfg.stack_size = P::stack_size();
    cfg.failure_persistence = shuttle::FailurePersistence::None;
    cfg.max_steps = shuttle::MaxSteps::None; // the SimScheduler enforces the bound
    cfg.silence_warnings = true;
    cfg.ungraceful_shutdown_config.immediately_return_on_panic = true;
    cfg
}

fn body<P: Prop>() {
    let scn = CUR_SCN.with(|c| c.borrow().clone()).expect("no scenario");
    let scn = scn.downcast_ref::<P::Scn>().expect("scenario type");
    P::run(scn);
    LAST_EVENT_HASH.with(|h| h.set(simrt::event_hash()));
}

/// Pseudo-class of an execution ended by the step bound; resolved through
/// `Prop::bound_exceeded` into a violation or "inconclusive".
const STEP_BOUND_CLASS: &str = "__step_bound__";

fn classify_panic(payload: Box<dyn Any + Send>) -> Violation {
    let msg = if let Some(s) = payload.downcast_ref::<&str>() {
        s.to_string()
    } else if let Some(s) = payload.downcast_ref::<String>() {
        s.clone()
    } else {
        String::new()
    };
    if let Some(v) = util::take_violation() {
        return v;
    }
    let first = util::take_last_panic();
    if first.as_ref().map(|f| f.0.starts_with(simrt::STEP_BOUND_MSG)).unwrap_or(false) || msg.starts_with(simrt::STEP_BOUND_MSG) {
        return Violation { class: STEP_BOUND_CLASS.into(), detail: String::new() };
    }
    if msg.starts_with("deadlock!") {
        return Violation { class: "deadlock".into(), detail: msg };
    }
    match first {
        Some((m, loc)) => Violation { class: format!("panic@{}", util::norm_location(&loc)), detail: m },
        None => Violation { class: "panic@unknown".into(), detail: msg },
    }
}

#[derive(Clone, Debug)]
pub struct ExecOutcome {
    pub rec: ExecRecord,
    pub violation: Option<Violation>,
    pub inconclusive: bool,
    pub event_hash: u64,
    pub trace: Vec<String>,
}

/// Runs exactly one execution in a fresh OS thread (clean panic state).
pub fn execute_once<P: Prop>(scn: &P::Scn, plan: ExecPlan, trace: bool) -> ExecOutcome {
    let scn = scn.clone();
    let h = std::thread::Builder::new()
        .stack_size(8 << 20)
        .spawn(move || {
            TRACE.with(|t| t.set(trace));
            util::clear_violation();
            let scn_rc: Rc<dyn Any> = Rc::new(scn.clone());
            CUR_SCN.with(|c| *c.borrow_mut() = Some(scn_rc));
            sched::set_next_plan(plan.clone());
            LAST_EVENT_HASH.with(|h| h.set(0));
            let r = std::panic::catch_unwind(std::panic::AssertUnwindSafe(|| {
                shuttle::Runner::new(SimScheduler::new(), shuttle_cfg::<P>()).run(body::<P>);
            }));
            let rec = sched::take_record();
            let mut inconclusive = false;
            let violation = match r {
                Err(p) => match classify_panic(p) {
                    v if v.class == STEP_BOUND_CLASS => {
                        let v = P::bound_exceeded(&scn, &plan);
                        inconclusive = v.is_none();
                        v
                    }
                    v => Some(v),
                },
                Ok(()) => {
                    if let Some(v) = util::take_violation() {
                        Some(v)
                    } else if rec.bound_exceeded {
                        let v = P::bound_exceeded(&scn, &plan);
                        inconclusive = v.is_none();
                        v
                    } else {
                        None
                    }
                }
            };
            let event_hash = match &violation {
                None => LAST_EVENT_HASH.with(|h| h.get()),
                Some(_) => simrt::event_hash(),
            };
            ExecOutcome { rec, violation, inconclusive, event_hash, trace: simrt::take_trace() }
        })
        .expect("spawn");
    h.join().expect("execution thread died")
}

// ---------------------------------------------------------------------------------------------
// Exploration
// ---------------------------------------------------------------------------------------------

#[derive(Clone)]
pub struct Failure<S> {
    pub idx: u64,
    pub seed: u64,
    pub scn: S,
    pub plan: ExecPlan,
    pub rec: ExecRecord,
    pub violation: Violation,
}

#[derive(Default)]
struct WorkerStats {
    evaluations: u64,
    nontrivial: u64,
    distinct: HashSet<u64>,
    distinct_overflow: u64,
    decisions: u64,
    preemptions: u64,
    clock_preemptions: u64,
    inconclusive: u64,
    max_tasks: usize,
    digest: u64,
    strategies: BTreeMap<String, u64>,
    sim: simrt::Stats,
}

struct Shared<S> {
    next: AtomicU64,
    stop: AtomicBool,
    /// run index after which no new run is started (set on the first failure)
    stop_at: AtomicU64,
    failures: Mutex<Vec<Failure<S>>>,
    known_hits: Mutex<BTreeMap<String, (u64, String)>>,
    samples: Mutex<Vec<Value>>,
}

pub struct Known {
    pub entries: Vec<Value>,
}
/// The known-findings file, loaded once (read-only at run time).
pub fn known() -> &'static Known {
    static K: std::sync::OnceLock<Known> = std::sync::OnceLock::new();
    K.get_or_init(Known::load)
}
unsafe impl Sync for Known {}
unsafe impl Send for Known {}
impl Known {
    pub fn load() -> Known {
        let path = crate::verif_dir().join("known_findings.json");
        let entries = std::fs::read_to_string(&path)
            .ok()
            .and_then(|s| serde_json::from_str::<Value>(&s).ok())
            .and_then(|v| v.get("findings").and_then(|f| f.as_array().cloned()))
            .unwrap_or_default();
        Known { entries }
    }
    /// Description of the listed *known* (not fixed) finding with this signature.
    pub fn matches(&self, prop: &str, sig: &str) -> Option<String> {
        self.entries.iter().find_map(|e| {
            let ok = e.get("status").and_then(|s| s.as_str()) == Some("known")
                && e.get("property").and_then(|s| s.as_str()) == Some(prop)
                && e.get("signature").and_then(|s| s.as_str()) == Some(sig);
            if ok {
                Some(e.get("what").and_then(|s| s.as_str()).unwrap_or("").to_string())
            } else {
                None
            }
        })
    }
}

fn strategy_name(p: &ExecPlan) -> String {
    let s = match &p.strategy {
        Strategy::Random => "random".to_string(),
        Strategy::Pct { depth, .. } => format!("pct{depth}"),
        Strategy::Replay { .. } => "replay".to_string(),
    };
    let c = match p.clock {
        ClockPolicy::Des => "des".to_string(),
        ClockPolicy::Eager(p) => format!("eager{p}"),
    };
    format!("{s}+{c}")
}

/// Per-worker bound on the set of case hashes kept for the distinct count.
const DISTINCT_CAP: usize = 4_000_000;
/// Bound on the merged set (16 workers x 4M).
const DISTINCT_CAP_MERGED: usize = 70_000_000;

/// Runs executions on the calling OS thread until the run indices are used
/// up (returns `true`) or an execution ends in a panic (returns `false`: the
/// thread may carry a suspended unwind, the supervisor continues on a fresh one).
fn worker<P: Prop>(slot: usize, shared: Arc<Shared<P::Scn>>, tier: Tier, verif_seed: u64, n: u64, known: Arc<Known>) -> (WorkerStats, bool) {
    let stats = Rc::new(RefCell::new(WorkerStats::default()));
    // run in flight: (idx, seed, scn, plan)
    type InFlight<S> = Option<(u64, u64, S, ExecPlan)>;
    let inflight: Rc<RefCell<InFlight<P::Scn>>> = Rc::new(RefCell::new(None));

    let finalize = {
        let (stats, inflight, shared, known) = (stats.clone(), inflight.clone(), shared.clone(), known.clone());
        move |panic_violation: Option<Violation>| {
            let Some((idx, seed, scn, plan)) = inflight.borrow_mut().take() else { return };
            let rec = sched::take_record();
            let mut st = stats.borrow_mut();
            st.evaluations += 1;
            st.decisions += rec.decisions as u64;
            st.preemptions += rec.preemptions as u64;
            st.clock_preemptions += rec.clock_preemptions as u64;
            st.max_tasks = st.max_tasks.max(rec.max_tasks);
            *st.strategies.entry(strategy_name(&plan)).or_insert(0) += 1;
            let ch = P::case_hash(&scn, &rec);
            if P::nontrivial(&scn, &rec) {
                st.nontrivial += 1;
                if st.distinct.len() < DISTINCT_CAP {
                    st.distinct.insert(ch);
                } else {
                    st.distinct_overflow += 1;
                }
            }
            let mut violation = panic_violation.or_else(util::take_violation);
            let mut bound = rec.bound_exceeded;
            if violation.as_ref().map(|v| v.class == STEP_BOUND_CLASS).unwrap_or(false) {
                violation = None;
                bound = true;
            }
            if violation.is_none() && bound {
                violation = P::bound_exceeded(&scn, &plan);
                if violation.is_none() {
                    st.inconclusive += 1;
                }
            }
            let ev = if violation.is_none() { LAST_EVENT_HASH.with(|h| h.get()) } else { 0 };
            // order-independent digest of (run, schedule, event log): equal across worker counts
            let mut d = SplitMix(idx ^ rec.hash().rotate_left(13) ^ ev.rotate_left(29));
            st.digest = st.digest.wrapping_add(d.next());
            drop(st);
            if let Some(v) = violation {
                let sig = P::signature(&v, &scn);
                if let Some(what) = known.matches(P::ID, &sig) {
                    let mut k = shared.known_hits.lock().unwrap();
                    k.entry(sig).or_insert((0, what)).0 += 1;
                } else {
                    let mut f = shared.failures.lock().unwrap();
                    if !f.iter().any(|x| P::signature(&x.violation, &x.scn) == sig) {
                        f.push(Failure { idx, seed, scn, plan, rec, violation: v });
                    }
                    // keep exploring for a while to collect *other* violations, then stop
                    shared.stop_at.fetch_min(idx + EXTRA_RUNS_AFTER_FAILURE, SeqCst);
                    if f.len() >= 4 {
                        shared.stop.store(true, SeqCst);
                    }
                }
            } else if idx < 3 {
                shared.samples.lock().unwrap().push(json!({
                    "run": idx, "seed": seed, "scenario": serde_json::to_value(&scn).unwrap_or(Value::Null),
                    "strategy": strategy_name(&plan), "decisions": rec.decisions, "preemptions": rec.preemptions,
                    "schedule_prefix": sched::encode_steps(&rec.steps[..rec.steps.len().min(40)]),
                }));
            }
        }
    };
    let finalize = Rc::new(finalize);

    // plan source: finalise the previous run, then produce the next one
    let src = {
        let (finalize, inflight, shared) = (finalize.clone(), inflight.clone(), shared.clone());
        move || -> Option<ExecPlan> {
            finalize(None);
            status_set(slot, 0);
            if shared.stop.load(SeqCst) {
                return None;
            }
            let idx = shared.next.fetch_add(1, SeqCst);
            if idx >= n || idx > shared.stop_at.load(SeqCst) {
                return None;
            }
            status_set(slot, idx + 1);
            let seed = util::run_seed(verif_seed, P::ID, 0, idx);
            let mut r = SplitMix(seed);
            let scn = P::gen(&mut r, tier, idx);
            let plan = P::plan(&mut r, &scn);
            util::clear_violation();
            LAST_EVENT_HASH.with(|h| h.set(0));
            let rc: Rc<dyn Any> = Rc::new(scn.clone());
            CUR_SCN.with(|c| *c.borrow_mut() = Some(rc));
            *inflight.borrow_mut() = Some((idx, seed, scn, plan.clone()));
            Some(plan)
        }
    };
    sched::set_plan_source(Box::new(src));
    let r = std::panic::catch_unwind(std::panic::AssertUnwindSafe(|| {
        shuttle::Runner::new(SimScheduler::new(), shuttle_cfg::<P>()).run(body::<P>);
    }));
    let done = match r {
        Ok(()) => true,
        Err(p) => {
            let v = classify_panic(p);
            finalize(Some(v));
            false
        }
    };
    let mut st = std::mem::take(&mut *stats.borrow_mut());
    st.sim.merge(&simrt::take_stats());
    (st, done)
}

/// One worker slot: runs `worker` on fresh OS threads until the indices are used up.
fn supervisor<P: Prop>(slot: usize, shared: Arc<Shared<P::Scn>>, tier: Tier, verif_seed: u64, n: u64, known: Arc<Known>) -> WorkerStats {
    let mut total = WorkerStats::default();
    loop {
        let (shared2, known2) = (shared.clone(), known.clone());
        let (st, done) = std::thread::Builder::new()
            .stack_size(4 << 20)
            .spawn(move || {
                let (st, done) = worker::<P>(slot, shared2, tier, verif_seed, n, known2);
                (SendStats(st), done)
            })
            .expect("spawn")
            .join()
            .map(|(s, d)| (s.0, d))
            .expect("worker died");
        total = merge_ws(total, st);
        if done {
            return total;
        }
    }
}

const EXTRA_RUNS_AFTER_FAILURE: u64 = 20_000;

struct SendStats(WorkerStats);
unsafe impl Send for SendStats {}

fn merge_ws(mut a: WorkerStats, b: WorkerStats) -> WorkerStats {
    a.evaluations += b.evaluations;
    a.nontrivial += b.nontrivial;
    for h in b.distinct {
        if a.distinct.len() < DISTINCT_CAP_MERGED {
            a.distinct.insert(h);
        } else {
            a.distinct_overflow += 1;
        }
    }
    a.distinct_overflow += b.distinct_overflow;
    a.decisions += b.decisions;
    a.preemptions += b.preemptions;
    a.clock_preemptions += b.clock_preemptions;
    a.inconclusive += b.inconclusive;
    a.max_tasks = a.max_tasks.max(b.max_tasks);
    a.digest = a.digest.wrapping_add(b.digest);
    for (k, v) in b.strategies {
        *a.strategies.entry(k).or_insert(0) += v;
    }
    a.sim.merge(&b.sim);
    a
}

pub struct CheckOpts {
    pub tier: Tier,
    pub verif_seed: u64,
    pub workers: usize,
    pub runs_override: Option<u64>,
    pub write_evidence: bool,
    pub selfcheck: bool,
}

/// Runs the whole check for property P. Returns the process exit code.
pub fn check<P: Prop>(o: &CheckOpts) -> i32 {
    P::prepare();
    let t0 = Instant::now();
    let n = o.runs_override.unwrap_or_else(|| P::runs(o.tier));
    let known = Arc::new(Known::load());
    println!(
        "[{}] tier={} VERIF_SEED={} runs={} workers={} engine={}",
        P::ID,
        o.tier.name(),
        o.verif_seed,
        n,
        o.workers,
        P::engine()
    );

    // determinism self-check: the first runs twice each, in fresh threads
    let mut selfcheck_runs = 0;
    if o.selfcheck {
        let k = n.min(if o.tier == Tier::Quick { 100 } else { 300 });
        for idx in 0..k {
            let seed = util::run_seed(o.verif_seed, P::ID, 0, idx);
            let mut r = SplitMix(seed);
            let scn = P::gen(&mut r, o.tier, idx);
            let plan = P::plan(&mut r, &scn);
            status_set(STATUS_SLOTS - 1, idx + 1);
            let a = execute_once::<P>(&scn, plan.clone(), false);
            let b = execute_once::<P>(&scn, plan.clone(), false);
            if a.rec.hash() != b.rec.hash()
                || a.event_hash != b.event_hash
                || a.violation.as_ref().map(|v| &v.class) != b.violation.as_ref().map(|v| &v.class)
            {
                println!(
                    "HARNESS-ERROR property={} non-determinism in run {idx}: schedule {:x}/{:x} events {:x}/{:x}",
                    P::ID,
                    a.rec.hash(),
                    b.rec.hash(),
                    a.event_hash,
                    b.event_hash
                );
                return 2;
            }
            // a recorded schedule must replay to the same event log
            let c = execute_once::<P>(
                &scn,
                ExecPlan { strategy: Strategy::Replay { steps: a.rec.steps.clone() }, ..plan.clone() },
                false,
            );
            if c.rec.replay_diverged || c.event_hash != a.event_hash {
                println!("HARNESS-ERROR property={} replay of run {idx} diverged", P::ID);
                return 2;
            }
            selfcheck_runs += 1;
        }
    }

    status_set(STATUS_SLOTS - 1, 0);
    let shared = Arc::new(Shared::<P::Scn> {
        next: AtomicU64::new(0),
        stop: AtomicBool::new(false),
        stop_at: AtomicU64::new(u64::MAX),
        failures: Mutex::new(vec![]),
        known_hits: Mutex::new(BTreeMap::new()),
        samples: Mutex::new(vec![]),
    });
    let mut handles = vec![];
    for slot in 0..o.workers.max(1) {
        let (shared, known, tier, vs) = (shared.clone(), known.clone(), o.tier, o.verif_seed);
        handles.push(
            std::thread::Builder::new()
                .stack_size(8 << 20)
                .spawn(move || SendStats(supervisor::<P>(slot % STATUS_SLOTS, shared, tier, vs, n, known)))
                .expect("spawn"),
        );
    }
    let mut total = WorkerStats::default();
    for h in handles {
        let ws = h.join().expect("worker died").0;
        total = merge_ws(total, ws);
    }
    let explore_s = t0.elapsed().as_secs_f64();

    // failures -> minimise -> replay files
    let failures = std::mem::take(&mut *shared.failures.lock().unwrap());
    // a panic inside the verification machinery is a harness error, never a violation
    if let Some(f) = failures.iter().find(|f| util::is_harness_location(&f.violation.class)) {
        println!("HARNESS-ERROR property={} the harness itself panicked: {} ({}) in run {} (seed {})", P::ID, f.violation.class, f.violation.detail, f.idx, f.seed);
        return 2;
    }
    let mut violation_lines = vec![];
    let mut replay_samples = vec![];
    for f in &failures {
        // (minimisation re-executes variants of the failing run: should one of them kill the
        // process, the guard attributes it to this run)
        status_set(STATUS_SLOTS - 2, f.idx + 1);
        let (path, min) = minimise_and_persist::<P>(f, o);
        status_set(STATUS_SLOTS - 2, 0);
        // a replay in a fresh process must reproduce the violation exactly
        let ok = verify_replay_in_fresh_process(&path, P::ID);
        if !ok {
            println!(
                "HARNESS-ERROR property={} replay of {} did not reproduce in a fresh process",
                P::ID,
                path.display()
            );
            return 2;
        }
        violation_lines.push(format!("VIOLATION property={} replay={}", P::ID, path.display()));
        println!(
            "  violation class={} detail={} (run {} seed {}; minimised to {} schedule steps)",
            min.violation.class,
            min.violation.detail.chars().take(300).collect::<String>(),
            f.idx,
            f.seed,
            min.rec.steps.len()
        );
        replay_samples.push(json!({"replay": path.display().to_string(), "class": min.violation.class}));
    }
    let known_hits = std::mem::take(&mut *shared.known_hits.lock().unwrap());
    for (sig, (count, what)) in &known_hits {
        println!("KNOWN-FINDING: property={} {} [{}; hit {} times]", P::ID, what, sig, count);
    }

    let wall = t0.elapsed().as_secs_f64();
    let distinct = total.distinct.len() as u64;
    let mut faults = serde_json::Map::new();
    for (i, c) in total.sim.faults_fired.iter().enumerate() {
        if *c > 0 {
            faults.insert(simrt::FAULT_NAMES[i].to_string(), json!(c));
        }
    }
    let mut probes = serde_json::Map::new();
    for (k, v) in &total.sim.probes {
        probes.insert(k.to_string(), json!(v));
    }
    for p in P::expected_probes() {
        let hit = total.sim.probes.get(p).copied().unwrap_or(0);
        if hit == 0 {
            probes.insert(p.to_string(), json!(0));
            if o.tier == Tier::Thorough {
                println!("  warning: probe {p} was never hit");
            }
        }
    }
    let mut samples = std::mem::take(&mut *shared.samples.lock().unwrap());
    samples.sort_by_key(|s| s.get("run").and_then(|r| r.as_u64()).unwrap_or(0));
    samples.extend(replay_samples);
    let mut coverage = json!({
        "evaluations": total.evaluations,
        "distinct_nontrivial": distinct,
        "distinct_nontrivial_note": format!("exact up to {} hashes per worker and {} merged; {} further non-trivial cases were not deduplicated and are not counted", DISTINCT_CAP, DISTINCT_CAP_MERGED, total.distinct_overflow),
        "rule": P::rule(),
        "samples": samples,
        "exhaustive": false,
        "nontrivial_executions": total.nontrivial,
        "runs_per_hour": if explore_s > 0.0 { (total.evaluations as f64 / explore_s * 3600.0) as u64 } else { 0 },
        "seeds": format!("VERIF_SEED={} -> per-run seeds run_seed(VERIF_SEED,'{}',0,i), i in 0..{}", o.verif_seed, P::ID, n),
        "sim_time_s": total.sim.sim_ns as f64 / 1e9,
        "timers_fired": total.sim.timers_fired,
        "scheduling_decisions": total.decisions,
        "preemptions": total.preemptions,
        "clock_preemptions": total.clock_preemptions,
        "max_runnable_tasks": total.max_tasks,
        "inconclusive_step_bound": total.inconclusive,
        "faults_fired": Value::Object(faults),
        "probes": Value::Object(probes),
        "schedulers": total.strategies,
        "run_digest": format!("{:016x}", total.digest),
        "determinism_selfcheck_runs": selfcheck_runs,
        "engine": P::engine(),
        "real_components": P::real_components(),
        "stub_components": P::stub_components(),
        "known_findings_hit": known_hits.iter().map(|(k, v)| json!({"signature": k, "count": v.0})).collect::<Vec<_>>(),
    });
    if let (Some(c), Value::Object(extra)) = (coverage.as_object_mut(), P::extra_coverage(&total.sim)) {
        for (k, v) in extra {
            c.insert(k, v);
        }
    }
    let evidence = json!({
        "property_id": P::ID,
        "tier": o.tier.name(),
        "seed": o.verif_seed,
        "level": P::LEVEL,
        "coverage": coverage,
        "assumptions": P::assumptions(),
        "wall_s": wall,
        "violations": violation_lines.len(),
    });
    if o.write_evidence {
        let dir = crate::verif_dir().join("evidence");
        let _ = std::fs::create_dir_all(&dir);
        let path = dir.join(format!("{}.json", P::ID));
        std::fs::write(&path, serde_json::to_string_pretty(&evidence).unwrap() + "\n").expect("write evidence");
    }
    println!(
        "[{}] {} executions ({} non-trivial, {} distinct) in {:.1}s ({:.0}/s), sim time {:.0}s, inconclusive {}, violations {}, known {}",
        P::ID,
        total.evaluations,
        total.nontrivial,
        distinct,
        wall,
        total.evaluations as f64 / explore_s.max(1e-9),
        total.sim.sim_ns as f64 / 1e9,
        total.inconclusive,
        violation_lines.len(),
        known_hits.len()
    );
    for l in &violation_lines {
        println!("{l}");
    }
    if violation_lines.is_empty() {
        0
    } else {
        1
    }
}

// ---------------------------------------------------------------------------------------------
// Minimisation and replay files
// ---------------------------------------------------------------------------------------------

pub struct Minimised<S> {
    pub scn: S,
    pub plan: ExecPlan,
    pub rec: ExecRecord,
    pub violation: Violation,
    pub event_hash: u64,
    pub trace: Vec<String>,
    pub executions: u64,
}

fn same_class(a: &Violation, b: &Violation) -> bool {
    a.class == b.class
}

pub fn minimise<P: Prop>(f: &Failure<P::Scn>) -> Minimised<P::Scn> {
    let t0 = Instant::now();
    let mut budget: i64 = 2000;
    let mut scn = f.scn.clone();
    let mut plan = f.plan.clone();
    let mut steps = f.rec.steps.clone();
    let target = f.violation.clone();
    let base_strategy = f.plan.strategy.clone();

    // (1) scenario shrink
    'outer: loop {
        if budget <= 0 || t0.elapsed().as_secs() > 90 {
            break;
        }
        for cand in P::shrink(&scn) {
            // first the recorded schedule (greedy tail on divergence), then fresh seeds
            let mut tries: Vec<ExecPlan> =
                vec![ExecPlan { strategy: Strategy::Replay { steps: steps.clone() }, ..plan.clone() }];
            for k in 0..24u64 {
                tries.push(ExecPlan {
                    seed: SplitMix(f.seed ^ (k + 1).wrapping_mul(0x9E37_79B9)).next(),
                    strategy: base_strategy.clone(),
                    ..plan.clone()
                });
            }
            for p in tries {
                budget -= 1;
                let out = execute_once::<P>(&cand, p.clone(), false);
                if let Some(v) = &out.violation {
                    if same_class(v, &target) {
                        scn = cand;
                        plan = p;
                        steps = out.rec.steps.clone();
                        continue 'outer;
                    }
                }
                if budget <= 0 {
                    break 'outer;
                }
            }
        }
        break;
    }

    // (2) schedule shrink: shortest recorded prefix followed by the greedy tail
    let fails_with = |k: usize, budget: &mut i64| -> Option<ExecOutcome> {
        *budget -= 1;
        let p = ExecPlan { strategy: Strategy::Replay { steps: steps[..k].to_vec() }, ..plan.clone() };
        let out = execute_once::<P>(&scn, p, false);
        match &out.violation {
            Some(v) if same_class(v, &target) => Some(out),
            _ => None,
        }
    };
    let (mut lo, mut hi) = (0usize, steps.len());
    if fails_with(hi, &mut budget).is_some() {
        while lo < hi && budget > 0 {
            let mid = (lo + hi) / 2;
            if fails_with(mid, &mut budget).is_some() {
                hi = mid;
            } else {
                lo = mid + 1;
            }
        }
    }
    let prefix = steps[..hi.min(steps.len())].to_vec();

    // (3) re-record the final execution with tracing
    let final_plan = ExecPlan { strategy: Strategy::Replay { steps: prefix }, ..plan.clone() };
    let mut out = execute_once::<P>(&scn, final_plan.clone(), true);
    if !matches!(&out.violation, Some(v) if same_class(v, &target)) {
        // fall back to the unshrunk schedule
        let p = ExecPlan { strategy: Strategy::Replay { steps: steps.clone() }, ..plan.clone() };
        out = execute_once::<P>(&scn, p, true);
    }
    let violation = out.violation.clone().unwrap_or(target);
    let full = ExecPlan { strategy: Strategy::Replay { steps: out.rec.steps.clone() }, ..plan };
    Minimised {
        scn,
        plan: full,
        rec: out.rec,
        violation,
        event_hash: out.event_hash,
        trace: out.trace,
        executions: (2000 - budget).max(0) as u64,
    }
}

fn plan_to_json(p: &ExecPlan) -> Value {
    json!({
        "seed": p.seed,
        "clock": match p.clock { ClockPolicy::Des => "des".to_string(), ClockPolicy::Eager(x) => format!("eager:{x}") },
        "max_steps": p.max_steps,
    })
}
fn plan_from_json(v: &Value, steps: Vec<Step>) -> ExecPlan {
    let clock = match v.get("clock").and_then(|c| c.as_str()).unwrap_or("des") {
        "des" => ClockPolicy::Des,
        s => ClockPolicy::Eager(s.trim_start_matches("eager:").parse().unwrap_or(0)),
    };
    ExecPlan {
        seed: v.get("seed").and_then(|s| s.as_u64()).unwrap_or(0),
        strategy: Strategy::Replay { steps },
        clock,
        max_steps: v.get("max_steps").and_then(|s| s.as_u64()).unwrap_or(1_000_000) as usize,
    }
}

fn minimise_and_persist<P: Prop>(f: &Failure<P::Scn>, o: &CheckOpts) -> (std::path::PathBuf, Minimised<P::Scn>) {
    let m = minimise::<P>(f);
    let dir = std::env::var_os("VERIF_REPLAY_DIR").map(std::path::PathBuf::from).unwrap_or_else(|| crate::verif_dir().join("replays"));
    let _ = std::fs::create_dir_all(&dir);
    let path = dir.join(format!("{}-{}-{}.json", P::ID, o.verif_seed, f.idx));
    let doc = json!({
        "property": P::ID,
        "engine": P::engine(),
        "verif_seed": o.verif_seed,
        "tier": o.tier.name(),
        "run": f.idx,
        "run_seed": f.seed,
        "original": {
            "scenario": serde_json::to_value(&f.scn).unwrap_or(Value::Null),
            "schedule_steps": f.rec.steps.len(),
            "strategy": strategy_name(&f.plan),
        },
        "minimisation_executions": m.executions,
        "scenario": serde_json::to_value(&m.scn).unwrap_or(Value::Null),
        "plan": plan_to_json(&m.plan),
        "schedule": sched::encode_steps(&m.rec.steps),
        "violation": m.violation,
        "signature": P::signature(&m.violation, &m.scn),
        "event_log_hash": format!("{:016x}", m.event_hash),
        "trace": m.trace,
    });
    std::fs::write(&path, serde_json::to_string_pretty(&doc).unwrap() + "\n").expect("write replay");
    (path, m)
}

fn verify_replay_in_fresh_process(path: &std::path::Path, id: &str) -> bool {
    let exe = std::env::current_exe().expect("current_exe");
    let out = std::process::Command::new(exe).arg("replay").arg(path).output();
    match out {
        Ok(o) => {
            let s = String::from_utf8_lossy(&o.stdout);
            o.status.code() == Some(1) && s.contains(&format!("VIOLATION property={id}"))
        }
        Err(_) => false,
    }
}

/// `simcheck replay <file>`: exit 1 + VIOLATION line when the recorded violation
/// reproduces exactly; exit 2 on any mismatch.
pub fn replay<P: Prop>(doc: &Value, path: &str) -> i32 {
    P::prepare();
    let scn: P::Scn = match serde_json::from_value(doc.get("scenario").cloned().unwrap_or(Value::Null)) {
        Ok(s) => s,
        Err(e) => {
            println!("HARNESS-ERROR cannot read scenario: {e}");
            return 2;
        }
    };
    let steps = match sched::decode_steps(doc.get("schedule").and_then(|s| s.as_str()).unwrap_or("")) {
        Ok(s) => s,
        Err(e) => {
            println!("HARNESS-ERROR cannot read schedule: {e}");
            return 2;
        }
    };
    let plan = plan_from_json(doc.get("plan").unwrap_or(&Value::Null), steps);
    let out = execute_once::<P>(&scn, plan, true);
    let want_class = doc.pointer("/violation/class").and_then(|s| s.as_str()).unwrap_or("");
    let want_hash = doc.get("event_log_hash").and_then(|s| s.as_str()).unwrap_or("");
    if std::env::var_os("VERIF_TRACE").is_some() {
        for l in &out.trace {
            println!("  {l}");
        }
    }
    match &out.violation {
        Some(v) if v.class == want_class && !out.rec.replay_diverged && format!("{:016x}", out.event_hash) == want_hash => {
            println!("  reproduced: class={} detail={}", v.class, v.detail);
            println!("VIOLATION property={} replay={}", P::ID, path);
            1
        }
        Some(v) => {
            println!(
                "HARNESS-ERROR replay mismatch: got class={} diverged={} hash={:016x}, want class={} hash={}",
                v.class, out.rec.replay_diverged, out.event_hash, want_class, want_hash
            );
            2
        }
        None => {
            println!("HARNESS-ERROR replay did not reproduce the violation (class {want_class})");
            2
        }
    }
}

/// `simcheck digest <id>`: per-run (schedule, event log) hashes for the
/// determinism proof across processes and worker counts.
pub fn digest<P: Prop>(tier: Tier, verif_seed: u64, from: u64, n: u64) {
    P::prepare();
    for idx in from..from + n {
        let seed = util::run_seed(verif_seed, P::ID, 0, idx);
        let mut r = SplitMix(seed);
        let scn = P::gen(&mut r, tier, idx);
        let plan = P::plan(&mut r, &scn);
        let a = execute_once::<P>(&scn, plan, false);
        println!(
            "{} {idx} {:016x} {:016x} {}",
            P::ID,
            a.rec.hash(),
            a.event_hash,
            a.violation.map(|v| v.class).unwrap_or_else(|| "-".into())
        );
    }
}

/// `simcheck scenario <id> --idx i`: the scenario and plan of run i as JSON (no code under test runs).
pub fn scenario_json<P: Prop>(tier: Tier, verif_seed: u64, idx: u64) -> Value {
    let seed = util::run_seed(verif_seed, P::ID, 0, idx);
    let mut r = SplitMix(seed);
    let scn = P::gen(&mut r, tier, idx);
    let plan = P::plan(&mut r, &scn);
    json!({
        "property": P::ID, "engine": P::engine(), "verif_seed": verif_seed, "tier": tier.name(), "run": idx, "run_seed": seed,
        "scenario": serde_json::to_value(&scn).unwrap_or(Value::Null),
        "plan": plan_to_json(&plan),
        "strategy": strategy_name(&plan),
    })
}
/// `simcheck run-one <id> --idx i`: executes exactly run i in this process (used by the guard to
/// find the run that kills or hangs the process). Exit code 0 whatever the verdict.
pub fn run_one<P: Prop>(tier: Tier, verif_seed: u64, idx: u64) -> i32 {
    P::prepare();
    let seed = util::run_seed(verif_seed, P::ID, 0, idx);
    let mut r = SplitMix(seed);
    let scn = P::gen(&mut r, tier, idx);
    let plan = P::plan(&mut r, &scn);
    let out = execute_once::<P>(&scn, plan, false);
    println!("run {idx}: {}", out.violation.map(|v| v.class).unwrap_or_else(|| "-".into()));
    0
}
/// `simcheck replay-child <file>`: re-runs the scenario of a process-level finding (seeded
/// strategy of the original plan: the recorded schedule of a process that died is not available).
pub fn replay_process_level<P: Prop>(doc: &Value) -> i32 {
    P::prepare();
    let scn: P::Scn = match serde_json::from_value(doc.get("scenario").cloned().unwrap_or(Value::Null)) {
        Ok(s) => s,
        Err(e) => {
            println!("HARNESS-ERROR cannot read scenario: {e}");
            return 2;
        }
    };
    let idx = doc.get("run").and_then(|v| v.as_u64()).unwrap_or(0);
    let seed = doc.get("run_seed").and_then(|v| v.as_u64()).unwrap_or(0);
    // the plan is a function of the run seed and the scenario, as in the original run
    let mut r = SplitMix(seed);
    let tier = if doc.get("tier").and_then(|t| t.as_str()) == Some("thorough") { Tier::Thorough } else { Tier::Quick };
    let _ = P::gen(&mut r, tier, idx);
    let plan = P::plan(&mut r, &scn);
    let out = execute_once::<P>(&scn, plan, false);
    println!("replay-child finished: {}", out.violation.map(|v| v.class).unwrap_or_else(|| "-".into()));
    0
}
