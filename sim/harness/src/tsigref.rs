//! Independent RFC 8945 signer/verifier for the oracles: HMAC (RFC 2104)
//! written out over the sha1/sha2 compression functions (trusted), TSIG digest
//! assembly per RFC 8945 section 4.3.
#![allow(dead_code)]
use crate::wire::{self, Name};
use sha1::{Digest, Sha1};
use sha2::Sha256;

#[derive(Clone, Copy, Debug, PartialEq, Eq, serde::Serialize, serde::Deserialize)]
pub enum Alg {
    Sha1,
    Sha256,
}
impl Alg {
    pub fn name(self) -> Name {
        match self {
            Alg::Sha1 => wire::name("hmac-sha1."),
            Alg::Sha256 => wire::name("hmac-sha256."),
        }
    }
    pub fn out_len(self) -> usize {
        match self {
            Alg::Sha1 => 20,
            Alg::Sha256 => 32,
        }
    }
    fn hash(self, parts: &[&[u8]]) -> Vec<u8> {
        match self {
            Alg::Sha1 => {
                let mut h = Sha1::new();
                for p in parts {
                    h.update(p);
                }
                h.finalize().to_vec()
            }
            Alg::Sha256 => {
                let mut h = Sha256::new();
                for p in parts {
                    h.update(p);
                }
                h.finalize().to_vec()
            }
        }
    }
}

/// HMAC per RFC 2104 (block size 64 for both SHA-1 and SHA-256).
pub fn hmac(alg: Alg, key: &[u8], data: &[&[u8]]) -> Vec<u8> {
    let mut k = if key.len() > 64 { alg.hash(&[key]) } else { key.to_vec() };
    k.resize(64, 0);
    let ipad: Vec<u8> = k.iter().map(|b| b ^ 0x36).collect();
    let opad: Vec<u8> = k.iter().map(|b| b ^ 0x5c).collect();
    let mut inner_parts: Vec<&[u8]> = vec![&ipad];
    inner_parts.extend_from_slice(data);
    let inner = alg.hash(&inner_parts);
    alg.hash(&[&opad, &inner])
}

fn canon_name(n: &Name) -> Vec<u8> {
    let lower: Name = n.iter().map(|l| l.to_ascii_lowercase()).collect();
    let mut v = vec![];
    wire::put_name(&mut v, &lower);
    v
}

#[derive(Clone, Debug, PartialEq, Eq)]
pub struct TsigFields {
    pub alg_name: Name,
    pub time: u64,
    pub fudge: u16,
    pub mac: Vec<u8>,
    pub original_id: u16,
    pub error: u16,
    pub other: Vec<u8>,
}
pub fn parse_rdata(rd: &[u8]) -> Option<TsigFields> {
    let (alg_name, o) = wire::get_name(rd, 0).ok()?;
    let f = rd.get(o..o + 10)?;
    let time = ((f[0] as u64) << 40) | ((f[1] as u64) << 32) | ((f[2] as u64) << 24) | ((f[3] as u64) << 16) | ((f[4] as u64) << 8) | f[5] as u64;
    let fudge = u16::from_be_bytes([f[6], f[7]]);
    let mlen = u16::from_be_bytes([f[8], f[9]]) as usize;
    let mac = rd.get(o + 10..o + 10 + mlen)?.to_vec();
    let r = rd.get(o + 10 + mlen..o + 16 + mlen)?;
    let original_id = u16::from_be_bytes([r[0], r[1]]);
    let error = u16::from_be_bytes([r[2], r[3]]);
    let olen = u16::from_be_bytes([r[4], r[5]]) as usize;
    let other = rd.get(o + 16 + mlen..o + 16 + mlen + olen)?.to_vec();
    if o + 16 + mlen + olen != rd.len() {
        return None;
    }
    Some(TsigFields { alg_name, time, fudge, mac, original_id, error, other })
}
pub fn build_rdata(f: &TsigFields) -> Vec<u8> {
    let mut v = vec![];
    wire::put_name(&mut v, &f.alg_name);
    v.extend(&f.time.to_be_bytes()[2..]);
    v.extend(f.fudge.to_be_bytes());
    v.extend((f.mac.len() as u16).to_be_bytes());
    v.extend(&f.mac);
    v.extend(f.original_id.to_be_bytes());
    v.extend(f.error.to_be_bytes());
    v.extend((f.other.len() as u16).to_be_bytes());
    v.extend(&f.other);
    v
}

fn variables(key_name: &Name, f: &TsigFields) -> Vec<u8> {
    let mut v = canon_name(key_name);
    v.extend(255u16.to_be_bytes()); // class ANY
    v.extend(0u32.to_be_bytes()); // TTL
    v.extend(canon_name(&f.alg_name));
    v.extend(&f.time.to_be_bytes()[2..]);
    v.extend(f.fudge.to_be_bytes());
    v.extend(f.error.to_be_bytes());
    v.extend((f.other.len() as u16).to_be_bytes());
    v.extend(&f.other);
    v
}

/// What to put on the wire for a signed request.
#[derive(Clone, Debug)]
pub struct SignSpec {
    pub key_name: Name,
    pub alg: Alg,
    /// algorithm name written into the RR (normally `alg.name()`)
    pub alg_name: Name,
    pub secret: Vec<u8>,
    pub time: u64,
    pub fudge: u16,
    /// truncate the MAC to this many octets (None = full)
    pub mac_len: Option<usize>,
}

/// Appends a TSIG RR to `msg` (which must not contain one) and returns the
/// signed message together with the full-length request MAC bytes as sent.
pub fn sign_request(msg: &[u8], s: &SignSpec) -> (Vec<u8>, Vec<u8>) {
    let mut f = TsigFields {
        alg_name: s.alg_name.clone(),
        time: s.time,
        fudge: s.fudge,
        mac: vec![],
        original_id: u16::from_be_bytes([msg[0], msg[1]]),
        error: 0,
        other: vec![],
    };
    let vars = variables(&s.key_name, &f);
    let mut mac = hmac(s.alg, &s.secret, &[msg, &vars]);
    if let Some(l) = s.mac_len {
        if l <= mac.len() {
            mac.truncate(l);
        } else {
            mac.resize(l, 0xaa);
        }
    }
    f.mac = mac.clone();
    let mut out = msg.to_vec();
    let ar = u16::from_be_bytes([out[10], out[11]]) + 1;
    out[10..12].copy_from_slice(&ar.to_be_bytes());
    wire::put_name(&mut out, &s.key_name);
    out.extend(wire::T_TSIG.to_be_bytes());
    out.extend(255u16.to_be_bytes());
    out.extend(0u32.to_be_bytes());
    let rd = build_rdata(&f);
    out.extend((rd.len() as u16).to_be_bytes());
    out.extend(rd);
    (out, mac)
}

/// Verifies the TSIG of a response against the request MAC. Returns the
/// parsed TSIG fields on success.
pub fn verify_response(resp: &[u8], request_mac: &[u8], alg: Alg, secret: &[u8]) -> Result<TsigFields, String> {
    let m = wire::decode(resp).map_err(|e| format!("response does not decode: {e:?}"))?;
    let last = m.additional.last().ok_or("no additional records")?;
    if last.rtype != wire::T_TSIG {
        return Err("last additional record is not TSIG".into());
    }
    if last.class != 255 || last.ttl != 0 {
        return Err(format!("TSIG class/ttl {} {}", last.class, last.ttl));
    }
    let f = parse_rdata(&last.rdata).ok_or("TSIG RDATA does not parse")?;
    let mut stripped = resp[..last.rr_off].to_vec();
    let ar = u16::from_be_bytes([stripped[10], stripped[11]]) - 1;
    stripped[10..12].copy_from_slice(&ar.to_be_bytes());
    stripped[0..2].copy_from_slice(&f.original_id.to_be_bytes());
    let vars = variables(&last.owner, &f);
    let rm_len = (request_mac.len() as u16).to_be_bytes();
    let full = hmac(alg, secret, &[&rm_len, request_mac, &stripped, &vars]);
    if f.mac.is_empty() {
        return Err("response MAC is empty".into());
    }
    if f.mac.len() > full.len() || f.mac[..] != full[..f.mac.len()] {
        return Err("response MAC does not verify".into());
    }
    Ok(f)
}
