//! Independent RFC 1035 wire codec used by the oracles. Shares no code with
//! the repository under test.
#![allow(dead_code)]

pub const T_A: u16 = 1;
pub const T_NS: u16 = 2;
pub const T_CNAME: u16 = 5;
pub const T_SOA: u16 = 6;
pub const T_MX: u16 = 15;
pub const T_TXT: u16 = 16;
pub const T_AAAA: u16 = 28;
pub const T_OPT: u16 = 41;
pub const T_TSIG: u16 = 250;
pub const T_ANY: u16 = 255;
pub const C_IN: u16 = 1;
pub const C_CH: u16 = 3;
pub const C_ANY: u16 = 255;

pub type Name = Vec<Vec<u8>>; // labels, root = empty vec

pub fn name(s: &str) -> Name {
    s.trim_end_matches('.')
        .split('.')
        .filter(|l| !l.is_empty())
        .map(|l| l.as_bytes().to_vec())
        .collect()
}
pub fn name_to_string(n: &Name) -> String {
    if n.is_empty() {
        return ".".into();
    }
    let mut s = String::new();
    for l in n {
        for &b in l {
            if b.is_ascii_graphic() && b != b'.' && b != b'\\' {
                s.push(b as char);
            } else {
                s.push_str(&format!("\\{:03}", b));
            }
        }
        s.push('.');
    }
    s
}
pub fn name_eq(a: &Name, b: &Name) -> bool {
    a.len() == b.len() && a.iter().zip(b).all(|(x, y)| x.eq_ignore_ascii_case(y))
}
pub fn put_name(out: &mut Vec<u8>, n: &Name) {
    for l in n {
        out.push(l.len() as u8);
        out.extend(l);
    }
    out.push(0);
}
pub fn name_wire(s: &str) -> Vec<u8> {
    let mut v = vec![];
    put_name(&mut v, &name(s));
    v
}

#[derive(Clone, Debug, PartialEq, Eq)]
pub struct Question {
    pub qname: Name,
    pub qtype: u16,
    pub qclass: u16,
}
#[derive(Clone, Debug, PartialEq, Eq)]
pub struct Rr {
    pub owner: Name,
    pub rtype: u16,
    pub class: u16,
    pub ttl: u32,
    pub rdata: Vec<u8>,
    /// offset of the RDATA in the message it was decoded from (for names inside RDATA)
    pub rdata_off: usize,
    /// offset of the first octet of the RR (its owner) in the decoded message
    pub rr_off: usize,
}
#[derive(Clone, Debug, Default, PartialEq, Eq)]
pub struct Msg {
    pub id: u16,
    pub flags: u16,
    pub questions: Vec<Question>,
    pub answers: Vec<Rr>,
    pub authority: Vec<Rr>,
    pub additional: Vec<Rr>,
}
impl Msg {
    pub fn qr(&self) -> bool {
        self.flags & 0x8000 != 0
    }
    pub fn opcode(&self) -> u8 {
        ((self.flags >> 11) & 0xf) as u8
    }
    pub fn aa(&self) -> bool {
        self.flags & 0x0400 != 0
    }
    pub fn tc(&self) -> bool {
        self.flags & 0x0200 != 0
    }
    pub fn rcode(&self) -> u8 {
        (self.flags & 0xf) as u8
    }
    /// 12-bit extended RCODE if an OPT is present
    pub fn ext_rcode(&self) -> u16 {
        let hi = self.opt().map(|o| (o.ttl >> 24) as u16).unwrap_or(0);
        (hi << 4) | self.rcode() as u16
    }
    pub fn opt(&self) -> Option<&Rr> {
        self.additional.iter().find(|r| r.rtype == T_OPT)
    }
    pub fn tsig(&self) -> Option<&Rr> {
        self.additional.iter().find(|r| r.rtype == T_TSIG)
    }
    pub fn all_rrs(&self) -> impl Iterator<Item = &Rr> {
        self.answers.iter().chain(&self.authority).chain(&self.additional)
    }
}

#[derive(Debug, Clone, PartialEq, Eq)]
pub struct DecodeError(pub String);

/// Decodes a (possibly compressed) name at `off`; returns the name and the
/// offset just past its in-place representation. Pointers must point strictly
/// backwards.
pub fn get_name(m: &[u8], mut off: usize) -> Result<(Name, usize), DecodeError> {
    let mut labels = vec![];
    let mut end = None;
    let mut total = 1usize;
    let mut limit = off;
    loop {
        let b = *m.get(off).ok_or_else(|| DecodeError("name runs past end".into()))?;
        match b & 0xc0 {
            0x00 => {
                if b == 0 {
                    if end.is_none() {
                        end = Some(off + 1);
                    }
                    return Ok((labels, end.unwrap()));
                }
                let l = b as usize;
                let s = m.get(off + 1..off + 1 + l).ok_or_else(|| DecodeError("label runs past end".into()))?;
                total += 1 + l;
                if total > 255 {
                    return Err(DecodeError("name longer than 255".into()));
                }
                labels.push(s.to_vec());
                off += 1 + l;
            }
            0xc0 => {
                let b2 = *m.get(off + 1).ok_or_else(|| DecodeError("pointer runs past end".into()))?;
                let p = (((b & 0x3f) as usize) << 8) | b2 as usize;
                if end.is_none() {
                    end = Some(off + 2);
                }
                if p >= limit {
                    return Err(DecodeError("forward or self pointer".into()));
                }
                limit = p;
                off = p;
            }
            _ => return Err(DecodeError("reserved label type".into())),
        }
    }
}

fn get_u16(m: &[u8], off: usize) -> Result<u16, DecodeError> {
    m.get(off..off + 2)
        .map(|b| u16::from_be_bytes([b[0], b[1]]))
        .ok_or_else(|| DecodeError("short".into()))
}
fn get_u32(m: &[u8], off: usize) -> Result<u32, DecodeError> {
    m.get(off..off + 4)
        .map(|b| u32::from_be_bytes([b[0], b[1], b[2], b[3]]))
        .ok_or_else(|| DecodeError("short".into()))
}

/// Strict decoder: every count must be satisfied and no octet may be left over.
pub fn decode(m: &[u8]) -> Result<Msg, DecodeError> {
    if m.len() < 12 {
        return Err(DecodeError("shorter than a header".into()));
    }
    let mut msg = Msg { id: get_u16(m, 0)?, flags: get_u16(m, 2)?, ..Default::default() };
    let (qd, an, ns, ar) = (get_u16(m, 4)?, get_u16(m, 6)?, get_u16(m, 8)?, get_u16(m, 10)?);
    let mut off = 12;
    for _ in 0..qd {
        let (qname, o) = get_name(m, off)?;
        msg.questions.push(Question { qname, qtype: get_u16(m, o)?, qclass: get_u16(m, o + 2)? });
        off = o + 4;
    }
    for (count, sect) in [(an, 0), (ns, 1), (ar, 2)] {
        for _ in 0..count {
            let (owner, o) = get_name(m, off)?;
            let rtype = get_u16(m, o)?;
            let class = get_u16(m, o + 2)?;
            let ttl = get_u32(m, o + 4)?;
            let rdlen = get_u16(m, o + 8)? as usize;
            let rdata = m.get(o + 10..o + 10 + rdlen).ok_or_else(|| DecodeError("rdata runs past end".into()))?.to_vec();
            let rr = Rr { owner, rtype, class, ttl, rdata, rdata_off: o + 10, rr_off: off };
            match sect {
                0 => msg.answers.push(rr),
                1 => msg.authority.push(rr),
                _ => msg.additional.push(rr),
            }
            off = o + 10 + rdlen;
        }
    }
    if off != m.len() {
        return Err(DecodeError(format!("{} trailing octets", m.len() - off)));
    }
    Ok(msg)
}

/// Uncompressed encoder.
pub fn encode(msg: &Msg) -> Vec<u8> {
    let mut out = vec![];
    out.extend(msg.id.to_be_bytes());
    out.extend(msg.flags.to_be_bytes());
    out.extend((msg.questions.len() as u16).to_be_bytes());
    out.extend((msg.answers.len() as u16).to_be_bytes());
    out.extend((msg.authority.len() as u16).to_be_bytes());
    out.extend((msg.additional.len() as u16).to_be_bytes());
    for q in &msg.questions {
        put_name(&mut out, &q.qname);
        out.extend(q.qtype.to_be_bytes());
        out.extend(q.qclass.to_be_bytes());
    }
    for rr in msg.all_rrs() {
        put_name(&mut out, &rr.owner);
        out.extend(rr.rtype.to_be_bytes());
        out.extend(rr.class.to_be_bytes());
        out.extend(rr.ttl.to_be_bytes());
        out.extend((rr.rdata.len() as u16).to_be_bytes());
        out.extend(&rr.rdata);
    }
    out
}

pub fn query(id: u16, qname: &str, qtype: u16) -> Vec<u8> {
    query_full(id, &name(qname), qtype, C_IN, 0, None)
}

/// A query with opcode/flags and an optional OPT (payload size).
pub fn query_full(id: u16, qname: &Name, qtype: u16, qclass: u16, flags: u16, edns_payload: Option<u16>) -> Vec<u8> {
    let mut m = Msg { id, flags, ..Default::default() };
    m.questions.push(Question { qname: qname.clone(), qtype, qclass });
    if let Some(p) = edns_payload {
        m.additional.push(opt_rr(p, 0, 0, &[]));
    }
    encode(&m)
}
pub fn opt_rr(payload: u16, version: u8, flags: u16, options: &[u8]) -> Rr {
    Rr {
        owner: vec![],
        rtype: T_OPT,
        class: payload,
        ttl: ((version as u32) << 16) | flags as u32,
        rdata: options.to_vec(),
        rdata_off: 0,
        rr_off: 0,
    }
}

/// Names that occur inside the RDATA of the well-known types (decompressed
/// against the whole message), for oracles that need to read targets.
pub fn rdata_names(m: &[u8], rr: &Rr) -> Result<Vec<Name>, DecodeError> {
    let o = rr.rdata_off;
    Ok(match rr.rtype {
        T_NS | T_CNAME | 12 /*PTR*/ => vec![get_name(m, o)?.0],
        T_MX => vec![get_name(m, o + 2)?.0],
        T_SOA => {
            let (a, o2) = get_name(m, o)?;
            let (b, _) = get_name(m, o2)?;
            vec![a, b]
        }
        _ => vec![],
    })
}
/// SOA serial (the 20 fixed octets are at the end of the RDATA).
pub fn soa_serial(rr: &Rr) -> Option<u32> {
    let n = rr.rdata.len();
    if rr.rtype != T_SOA || n < 20 {
        return None;
    }
    Some(u32::from_be_bytes([rr.rdata[n - 20], rr.rdata[n - 19], rr.rdata[n - 18], rr.rdata[n - 17]]))
}
pub fn txt_strings(rr: &Rr) -> Vec<Vec<u8>> {
    let mut v = vec![];
    let mut i = 0;
    while i < rr.rdata.len() {
        let l = rr.rdata[i] as usize;
        if i + 1 + l > rr.rdata.len() {
            break;
        }
        v.push(rr.rdata[i + 1..i + 1 + l].to_vec());
        i += 1 + l;
    }
    v
}
pub fn soa_rdata(mname: &str, rname: &str, serial: u32) -> Vec<u8> {
    let mut v = name_wire(mname);
    v.extend(name_wire(rname));
    v.extend(serial.to_be_bytes());
    for x in [3600u32, 600, 86400, 60] {
        v.extend(x.to_be_bytes());
    }
    v
}
pub fn txt_rdata(s: &[u8]) -> Vec<u8> {
    let mut v = vec![s.len() as u8];
    v.extend(s);
    v
}
