//! Small shared pieces: seeds, violation slot, quiet panic hook.
use serde::{Deserialize, Serialize};
use std::cell::RefCell;

pub use quandary_simrt::sched::SplitMix;

/// A property violation observed in one execution.
#[derive(Clone, Debug, Serialize, Deserialize, PartialEq, Eq)]
pub struct Violation {
    /// stable class used by the minimiser and by known-findings matching
    pub class: String,
    pub detail: String,
}

thread_local! {
    static VIOLATION: RefCell<Option<Violation>> = const { RefCell::new(None) };
    static LAST_PANIC: RefCell<Option<(String, String)>> = const { RefCell::new(None) };
}

/// Records the first violation of the current execution (oracles call this;
/// it does not unwind).
pub fn viol(class: &str, detail: String) {
    VIOLATION.with(|v| {
        let mut v = v.borrow_mut();
        if v.is_none() {
            *v = Some(Violation { class: class.to_string(), detail });
        }
    });
}
/// Replaces the recorded violation (used when the recorded one is a listed known
/// finding and a different, unlisted one turns up in the same execution).
pub fn viol_replace(class: &str, detail: String) {
    VIOLATION.with(|v| *v.borrow_mut() = Some(Violation { class: class.to_string(), detail }));
}
pub fn has_violation() -> bool {
    VIOLATION.with(|v| v.borrow().is_some())
}
pub fn take_violation() -> Option<Violation> {
    VIOLATION.with(|v| v.borrow_mut().take())
}
pub fn clear_violation() {
    VIOLATION.with(|v| *v.borrow_mut() = None);
    LAST_PANIC.with(|v| *v.borrow_mut() = None);
}
/// (message, "file:line") of the most recent panic on this OS thread.
pub fn take_last_panic() -> Option<(String, String)> {
    LAST_PANIC.with(|v| v.borrow_mut().take())
}

/// Installs a panic hook that records message and location and prints nothing
/// (unless VERIF_VERBOSE is set). shuttle installs its own hook once, on its
/// first execution; `init_quiet_panics` runs a dummy execution first so that
/// ours replaces it.
pub fn init_quiet_panics() {
    use quandary_simrt::sched::{ClockPolicy, ExecPlan, SimScheduler, Strategy};
    quandary_simrt::sched::set_next_plan(ExecPlan {
        seed: 0,
        strategy: Strategy::Random,
        clock: ClockPolicy::Des,
        max_steps: 100,
    });
    let mut cfg = shuttle::Config::new();
    cfg.failure_persistence = shuttle::FailurePersistence::None;
    shuttle::Runner::new(SimScheduler::new(), cfg).run(|| {});
    let verbose = std::env::var_os("VERIF_VERBOSE").is_some();
    std::panic::set_hook(Box::new(move |info| {
        // every panic that reaches the hook is a genuine one (injected crashes use resume_unwind)
        quandary_simrt::note_genuine_panic();
        let msg = if let Some(s) = info.payload().downcast_ref::<&str>() {
            s.to_string()
        } else if let Some(s) = info.payload().downcast_ref::<String>() {
            s.clone()
        } else {
            "<non-string panic payload>".to_string()
        };
        let loc = info
            .location()
            .map(|l| format!("{}:{}", l.file(), l.line()))
            .unwrap_or_else(|| "<unknown>".into());
        if verbose {
            eprintln!("[panic] {msg} at {loc}");
        }
        LAST_PANIC.with(|v| {
            let mut v = v.borrow_mut();
            // keep the *first* panic of an execution: later ones are fallout
            if v.is_none() {
                *v = Some((msg, loc));
            }
        });
    }));
}

/// Derives the seed of run `i` of property `prop` from VERIF_SEED.
pub fn run_seed(verif_seed: u64, prop: &str, sub: u64, i: u64) -> u64 {
    let mut h = SplitMix(verif_seed ^ 0xA076_1D64_78BD_642F);
    let mut x = h.next();
    for b in prop.bytes() {
        x = (x ^ b as u64).wrapping_mul(0x100000001b3);
    }
    let mut h = SplitMix(x ^ sub.wrapping_mul(0x9E3779B97F4A7C15));
    let a = h.next();
    let mut h = SplitMix(a ^ i.wrapping_mul(0xD6E8FEB86659FD93));
    h.next()
}

pub fn pick<'a, T>(r: &mut SplitMix, v: &'a [T]) -> &'a T {
    &v[r.below(v.len() as u64) as usize]
}
pub fn range(r: &mut SplitMix, lo: u64, hi_incl: u64) -> u64 {
    lo + r.below(hi_incl - lo + 1)
}
pub fn chance(r: &mut SplitMix, percent: u64) -> bool {
    r.below(100) < percent
}

/// Strips the repository prefix from a panic location so that signatures are
/// stable across checkouts (`/verif/sim/shadow/../repo/src/x.rs:1` -> `src/x.rs:1`).
/// Locations outside the repository (harness, simulator, dependencies) keep their full path.
pub fn norm_location(loc: &str) -> String {
    match loc.find("repo/src/") {
        Some(i) => loc[i + 5..].to_string(),
        None => loc.to_string(),
    }
}
/// A panic raised by the verification machinery itself (not by the code under test).
pub fn is_harness_location(class: &str) -> bool {
    class.starts_with("panic@") && (class.contains("/sim/harness/") || class.contains("/sim/simrt/") || class.starts_with("panic@src/props/") || class.starts_with("panic@src/driver") || class.starts_with("panic@src/main"))
}

pub fn hex(b: &[u8]) -> String {
    b.iter().map(|x| format!("{x:02x}")).collect()
}
pub fn unhex(s: &str) -> Vec<u8> {
    (0..s.len() / 2)
        .map(|i| u8::from_str_radix(&s[2 * i..2 * i + 2], 16).unwrap_or(0))
        .collect()
}
