//! Process-level containment. A defect that overflows the stack, aborts, or spins without ever
//! reaching a scheduling point cannot be caught inside the process that runs the simulation.
//! `simcheck check` therefore runs as a *guard*: it starts the real check as a child process
//! (`--child`), watches the table of in-flight runs the child keeps in a status file, and when
//! the child is killed by a signal or stops making progress it finds the responsible run by
//! executing the in-flight runs one by one in fresh children, writes a replay file for it and
//! reports the violation like any other. `simcheck replay` of such a file re-runs the scenario
//! in a child again and reproduces iff the child dies or hangs again.
use crate::driver::{StatusFile, STATUS_SLOTS};
use serde_json::{json, Value};
use std::os::unix::process::ExitStatusExt;
use std::path::PathBuf;
use std::process::{Command, Stdio};
use std::time::{Duration, Instant};

/// A run that makes no progress for this long (wall clock) is a hang. Generous: the slowest
/// legitimate executions (tens of thousands of `handle_message` calls, or a step-bounded whole
/// system run) take seconds even on a loaded machine.
fn hang_secs() -> u64 {
    std::env::var("VERIF_HANG_SECS").ok().and_then(|s| s.parse().ok()).unwrap_or(300)
}

enum Death {
    Signal(i32),
    Hang,
}
impl Death {
    fn class(&self) -> String {
        match self {
            Death::Signal(n) => format!("process-died-signal-{n}"),
            Death::Hang => "hang-no-progress".to_string(),
        }
    }
}

/// Runs `args` (a simcheck command line without argv[0]) as a child; returns how it ended:
/// Ok(exit code) or Err(death). `watch` = status file to watch for hangs (whole-check mode);
/// otherwise a plain wall-clock limit applies.
fn run_child(args: &[String], status: Option<&StatusFile>, quiet: bool, limit: Option<Duration>) -> Result<i32, (Death, Vec<u64>)> {
    run_child_opts(args, status, quiet, limit, true)
}
fn run_child_opts(args: &[String], status: Option<&StatusFile>, quiet: bool, limit: Option<Duration>, detect_hangs: bool) -> Result<i32, (Death, Vec<u64>)> {
    let exe = std::env::current_exe().expect("current_exe");
    let mut cmd = Command::new(exe);
    cmd.args(args);
    if quiet {
        cmd.stdout(Stdio::null()).stderr(Stdio::null());
    }
    let mut child = cmd.spawn().expect("spawn child");
    let t0 = Instant::now();
    // last change of each slot
    let mut seen: Vec<(u64, Instant)> = vec![(0, Instant::now()); STATUS_SLOTS];
    let in_flight = |status: Option<&StatusFile>| -> Vec<u64> { status.map(|s| (0..STATUS_SLOTS).map(|k| s.get(k)).filter(|v| *v > 0).map(|v| v - 1).collect()).unwrap_or_default() };
    loop {
        match child.try_wait() {
            Ok(Some(st)) => {
                return match (st.code(), st.signal()) {
                    (Some(c), _) => Ok(c),
                    (None, Some(sig)) => Err((Death::Signal(sig), in_flight(status))),
                    _ => Ok(2),
                };
            }
            Ok(None) => {}
            Err(_) => return Ok(2),
        }
        if let (Some(s), true) = (status, detect_hangs) {
            for k in 0..STATUS_SLOTS {
                let v = s.get(k);
                if v != seen[k].0 {
                    seen[k] = (v, Instant::now());
                } else if v > 0 && seen[k].1.elapsed().as_secs() > hang_secs() {
                    let _ = child.kill();
                    let _ = child.wait();
                    return Err((Death::Hang, vec![v - 1]));
                }
            }
        }
        if let Some(l) = limit {
            if t0.elapsed() > l {
                let _ = child.kill();
                let _ = child.wait();
                return Err((Death::Hang, vec![]));
            }
        }
        std::thread::sleep(Duration::from_millis(if t0.elapsed().as_secs() < 5 { 20 } else { 200 }));
    }
}

fn verif_dir() -> PathBuf {
    crate::verif_dir()
}

/// Guarded `check`: `args` is the full command line after argv[0], starting with "check".
pub fn check(args: &[String]) -> i32 {
    let id = args.get(1).cloned().unwrap_or_default();
    let status_path = std::env::temp_dir().join(format!("simcheck-status-{}-{}", std::process::id(), id));
    let _ = std::fs::remove_file(&status_path);
    let status = StatusFile::open(&status_path);
    let mut child_args: Vec<String> = args.to_vec();
    child_args.push("--child".into());
    child_args.push("--status-file".into());
    child_args.push(status_path.display().to_string());
    let r = run_child(&child_args, status.as_ref(), false, None);
    let _ = std::fs::remove_file(&status_path);
    let (death, suspects) = match r {
        Ok(code) => return code,
        Err(d) => d,
    };
    println!("[{id}] the checking process {} - looking for the responsible run among {:?}", match death { Death::Signal(n) => format!("was killed by signal {n}"), Death::Hang => format!("made no progress on one run for {} s", hang_secs()) }, suspects);
    // pass-through options that decide which runs exist
    let mut common: Vec<String> = vec![];
    for k in ["--tier", "--seed"] {
        if let Some(i) = args.iter().position(|a| a == k) {
            if let Some(v) = args.get(i + 1) {
                common.push(k.to_string());
                common.push(v.clone());
            }
        }
    }
    for idx in suspects {
        let mut a = vec!["run-one".to_string(), id.clone(), "--idx".into(), idx.to_string()];
        a.extend(common.clone());
        let probe = run_child(&a, None, true, Some(Duration::from_secs(hang_secs())));
        let Err((d, _)) = probe else { continue };
        // the scenario of the culprit (generated without running any code under test)
        let mut a = vec!["scenario".to_string(), id.clone(), "--idx".into(), idx.to_string()];
        a.extend(common.clone());
        let exe = std::env::current_exe().expect("current_exe");
        let out = Command::new(exe).args(&a).output().ok();
        let mut doc: Value = out.and_then(|o| serde_json::from_slice(&o.stdout).ok()).unwrap_or_else(|| json!({"property": id, "run": idx}));
        let class = d.class();
        doc["violation"] = json!({"class": class, "detail": format!("the process running this execution {} (stack overflow, abort, or a loop that never reaches a scheduling point): no verdict can be produced in-process", match d { Death::Signal(n) => format!("was killed by signal {n}"), Death::Hang => "made no progress".to_string() })});
        doc["signature"] = json!(class);
        doc["process_level"] = json!(true);
        let dir = std::env::var_os("VERIF_REPLAY_DIR").map(PathBuf::from).unwrap_or_else(|| verif_dir().join("replays"));
        let _ = std::fs::create_dir_all(&dir);
        let seed = doc.get("verif_seed").and_then(|v| v.as_u64()).unwrap_or(1);
        let path = dir.join(format!("{id}-{seed}-{idx}.json"));
        let _ = std::fs::write(&path, serde_json::to_string_pretty(&doc).unwrap_or_default() + "\n");
        // the replay must reproduce in a fresh process
        if replay(&path.display().to_string(), &doc, true) != 1 {
            println!("HARNESS-ERROR property={id} replay of {} did not reproduce in a fresh process", path.display());
            return 2;
        }
        println!("  violation class={class} (run {idx})");
        println!("VIOLATION property={id} replay={}", path.display());
        return 1;
    }
    if matches!(death, Death::Hang) {
        // A run that was merely slow (a loaded machine, a change that makes some executions very
        // expensive but finite): no run hangs on its own, so let the check run to its own verdict,
        // this time without a progress limit.
        println!("[{id}] no in-flight run hangs on its own: running the check again without a progress limit");
        let status2 = StatusFile::open(&status_path);
        let r = run_child_opts(&child_args, status2.as_ref(), false, None, false);
        let _ = std::fs::remove_file(&status_path);
        return match r {
            Ok(code) => code,
            Err(_) => {
                println!("HARNESS-ERROR property={id} the checking process died on the second attempt");
                2
            }
        };
    }
    println!("HARNESS-ERROR property={id} the checking process was killed by a signal, but none of the in-flight runs dies on its own");
    2
}

/// Guarded replay of a process-level finding: reproduces iff the child dies or hangs again.
pub fn replay(path: &str, doc: &Value, quiet: bool) -> i32 {
    let id = doc.get("property").and_then(|p| p.as_str()).unwrap_or("");
    let want = doc.pointer("/violation/class").and_then(|s| s.as_str()).unwrap_or("");
    let r = run_child(&["replay-child".to_string(), path.to_string()], None, true, Some(Duration::from_secs(hang_secs())));
    match r {
        Err((d, _)) if d.class() == want || (want.starts_with("process-died") && matches!(d, Death::Signal(_))) => {
            if !quiet {
                println!("  reproduced: class={}", d.class());
                println!("VIOLATION property={id} replay={path}");
            }
            1
        }
        Err((d, _)) => {
            println!("HARNESS-ERROR replay mismatch: got {}, want {want}", d.class());
            2
        }
        Ok(_) => {
            println!("HARNESS-ERROR replay did not reproduce the violation (class {want}): the process ended normally");
            2
        }
    }
}
