//! simcheck – deterministic-simulation checks for matttpt/quandary.
#![allow(clippy::type_complexity)]
#[allow(dead_code, unused_imports, clippy::all)]
#[path = "../../repo/src/bin/quandaryd/args.rs"]
mod args;
#[allow(dead_code, unused_imports, clippy::all)]
#[path = "../../repo/src/bin/quandaryd/config.rs"]
mod config;
#[allow(dead_code, unused_imports, clippy::all)]
#[path = "../../repo/src/bin/quandaryd/run.rs"]
mod run;
#[allow(dead_code, unused_imports, clippy::all)]
#[path = "../../repo/src/bin/quandaryd/zones.rs"]
mod zones;
mod driver;
mod guard;
mod props;
mod qz;
mod wire;
mod selftest;
mod tsigref;
mod util;

use driver::{CheckOpts, Prop, Tier};
use quandary_simrt::sched::{ClockPolicy, Strategy};

pub fn verif_dir() -> std::path::PathBuf {
    std::env::var_os("VERIF_DIR").map(Into::into).unwrap_or_else(|| "/verif".into())
}

pub fn parse_strategy(s: &str, est_len: u32) -> Strategy {
    match s.split_once(':') {
        Some(("pct", d)) => Strategy::Pct { depth: d.parse().unwrap_or(2), est_len },
        _ => Strategy::Random,
    }
}
pub fn parse_clock(s: &str) -> ClockPolicy {
    match s.split_once(':') {
        Some(("eager", p)) => ClockPolicy::Eager(p.parse().unwrap_or(10)),
        _ => ClockPolicy::Des,
    }
}

fn arg_value(args: &[String], name: &str) -> Option<String> {
    args.iter().position(|a| a == name).and_then(|i| args.get(i + 1).cloned())
}

macro_rules! dispatch {
    ($id:expr, $f:ident ( $($a:expr),* )) => {
        match $id {
            "C01" => Some(driver::$f::<props::c01::C01>($($a),*)),
            "C10" => Some(driver::$f::<props::c10::C10>($($a),*)),
            "C24" => Some(driver::$f::<props::c24::C24>($($a),*)),
            "C25" => Some(driver::$f::<props::c25::C25>($($a),*)),
            "C26" => Some(driver::$f::<props::c26::C26>($($a),*)),
            "C27" => Some(driver::$f::<props::c27::C27>($($a),*)),
            "C28" => Some(driver::$f::<props::c28::C28>($($a),*)),
            "C29" => Some(driver::$f::<props::c29::C29>($($a),*)),
            "C30" => Some(driver::$f::<props::c30::C30>($($a),*)),
            "C31" => Some(driver::$f::<props::c31::C31>($($a),*)),
            "C32" => Some(driver::$f::<props::c32::C32>($($a),*)),
            _ => None,
        }
    };
}

fn main() {
    let args: Vec<String> = std::env::args().collect();
    if args.len() < 2 {
        eprintln!("usage: simcheck check <ID> [--tier quick|thorough] [--seed N] [--workers N] [--runs N] | replay <file> | digest <ID> ...");
        std::process::exit(2);
    }
    if std::env::var_os("RUST_LOG").is_some() {
        let _ = env_logger::try_init();
    }
    util::init_quiet_panics();
    let tier = match arg_value(&args, "--tier").or_else(|| std::env::var("VERIF_TIER").ok()).as_deref() {
        Some("thorough") => Tier::Thorough,
        _ => Tier::Quick,
    };
    let seed: u64 = arg_value(&args, "--seed")
        .or_else(|| std::env::var("VERIF_SEED").ok())
        .and_then(|s| s.parse().ok())
        .unwrap_or(1);
    let workers: usize = arg_value(&args, "--workers")
        .or_else(|| std::env::var("VERIF_WORKERS").ok())
        .and_then(|s| s.parse().ok())
        .unwrap_or(16);
    let child = args.iter().any(|a| a == "--child");
    if args[1] == "check" && !child && std::env::var_os("VERIF_NO_GUARD").is_none() {
        // guard mode: the check itself runs in a child process (see guard.rs)
        std::process::exit(guard::check(&args[1..]));
    }
    if child {
        driver::set_status_file(arg_value(&args, "--status-file").as_deref().map(std::path::Path::new));
    }
    let code = match args[1].as_str() {
        "check" => {
            let id = args.get(2).map(|s| s.as_str()).unwrap_or("");
            let o = CheckOpts {
                tier,
                verif_seed: seed,
                workers,
                runs_override: arg_value(&args, "--runs").and_then(|s| s.parse().ok()),
                write_evidence: !args.iter().any(|a| a == "--no-evidence"),
                selfcheck: !args.iter().any(|a| a == "--no-selfcheck"),
            };
            dispatch!(id, check(&o)).unwrap_or_else(|| {
                println!("HARNESS-ERROR unknown property {id}");
                2
            })
        }
        "replay" => {
            let path = args.get(2).cloned().unwrap_or_default();
            let doc: serde_json::Value = match std::fs::read_to_string(&path).ok().and_then(|s| serde_json::from_str(&s).ok()) {
                Some(d) => d,
                None => {
                    println!("HARNESS-ERROR cannot read replay file {path}");
                    std::process::exit(2);
                }
            };
            let id = doc.get("property").and_then(|p| p.as_str()).unwrap_or("").to_string();
            if doc.get("process_level").and_then(|v| v.as_bool()) == Some(true) {
                guard::replay(&path, &doc, false)
            } else {
                dispatch!(id.as_str(), replay(&doc, &path)).unwrap_or(2)
            }
        }
        "replay-child" => {
            let path = args.get(2).cloned().unwrap_or_default();
            let doc: serde_json::Value = std::fs::read_to_string(&path).ok().and_then(|s| serde_json::from_str(&s).ok()).unwrap_or(serde_json::Value::Null);
            let id = doc.get("property").and_then(|p| p.as_str()).unwrap_or("").to_string();
            dispatch!(id.as_str(), replay_process_level(&doc)).unwrap_or(2)
        }
        "run-one" => {
            let id = args.get(2).map(|s| s.as_str()).unwrap_or("");
            let idx: u64 = arg_value(&args, "--idx").and_then(|s| s.parse().ok()).unwrap_or(0);
            dispatch!(id, run_one(tier, seed, idx)).unwrap_or(2)
        }
        "scenario" => {
            let id = args.get(2).map(|s| s.as_str()).unwrap_or("");
            let idx: u64 = arg_value(&args, "--idx").and_then(|s| s.parse().ok()).unwrap_or(0);
            match dispatch!(id, scenario_json(tier, seed, idx)) {
                Some(v) => {
                    println!("{}", serde_json::to_string(&v).unwrap_or_default());
                    0
                }
                None => 2,
            }
        }
        "selftest" => selftest::run(),
        "digest" => {
            let id = args.get(2).map(|s| s.as_str()).unwrap_or("");
            let from: u64 = arg_value(&args, "--from").and_then(|s| s.parse().ok()).unwrap_or(0);
            let n: u64 = arg_value(&args, "--n").and_then(|s| s.parse().ok()).unwrap_or(100);
            dispatch!(id, digest(tier, seed, from, n));
            0
        }
        _ => 2,
    };
    std::process::exit(code);
}

#[allow(dead_code)]
fn _assert_prop<P: Prop>() {}
