//! Helpers to build quandary zones/catalogs/servers through the public API
//! and to call `handle_message`.
#![allow(dead_code)]
use crate::wire;
use quandary::class::Class;
use quandary::db::zone::GluePolicy;
use quandary::db::{catalog::Entry, HashMapTreeCatalog, HashMapTreeZone};
use quandary::name::Name;
use quandary::rr::{Rdata, Ttl, Type};
use quandary::server::{ReceivedInfo, Response, Server, Transport};
use std::net::IpAddr;
use std::sync::Arc;

pub type Cat = HashMapTreeCatalog<HashMapTreeZone, ()>;

pub fn qname(n: &str) -> Box<Name> {
    n.parse().unwrap_or_else(|e| panic!("bad name {n}: {e:?}"))
}
pub struct ZoneBuilder {
    pub zone: HashMapTreeZone,
}
impl ZoneBuilder {
    pub fn new(apex: &str, class: u16) -> Self {
        ZoneBuilder { zone: HashMapTreeZone::new(qname(apex), Class::from(class), GluePolicy::Narrow) }
    }
    pub fn wide(apex: &str) -> Self {
        ZoneBuilder { zone: HashMapTreeZone::new(qname(apex), Class::IN, GluePolicy::Wide) }
    }
    pub fn add(&mut self, owner: &str, rtype: u16, ttl: u32, rdata: &[u8]) -> &mut Self {
        let class = quandary::db::Zone::class(&self.zone);
        let rd: &Rdata = <&Rdata>::try_from(rdata).expect("rdata too long");
        self.zone
            .add(&qname(owner), Type::from(rtype), class, Ttl::from(ttl), rd)
            .unwrap_or_else(|e| panic!("add {owner} {rtype}: {e:?}"));
        self
    }
    /// SOA + NS (target outside the zone) at the apex.
    pub fn soa_ns(&mut self, apex: &str, serial: u32) -> &mut Self {
        self.add(apex, wire::T_SOA, 60, &wire::soa_rdata("ns.elsewhere.", "hostmaster.elsewhere.", serial));
        self.add(apex, wire::T_NS, 60, &wire::name_wire("ns.elsewhere."));
        self
    }
    pub fn finish(self) -> Arc<HashMapTreeZone> {
        Arc::new(self.zone)
    }
}
pub fn catalog_of(zones: Vec<Arc<HashMapTreeZone>>) -> Arc<Cat> {
    let mut c = Cat::new();
    for z in zones {
        c.insert(Entry::Loaded(z, ()));
    }
    Arc::new(c)
}

/// The standard small zone used by several checks: `example.` with a few names.
pub fn example_zone(serial: u32) -> Arc<HashMapTreeZone> {
    example_zone_with(serial, false)
}
/// `apex_big`: the apex additionally holds a large TXT RRset, added last, so that an ANY query for
/// the apex over UDP overflows *after* RRsets with names in their RDATA (SOA, NS, MX) were written.
pub fn example_zone_with(serial: u32, apex_big: bool) -> Arc<HashMapTreeZone> {
    let mut z = ZoneBuilder::new("example.", wire::C_IN);
    z.soa_ns("example.", serial);
    z.add("www.example.", wire::T_A, 60, &[10, 0, 0, 1]);
    z.add("www.example.", wire::T_AAAA, 60, &[0x20, 1, 0xd, 0xb8, 0, 0, 0, 0, 0, 0, 0, 0, 0, 0, 0, 1]);
    z.add("mail.example.", wire::T_A, 60, &[10, 0, 0, 2]);
    z.add("example.", wire::T_MX, 60, &{
        let mut v = vec![0, 10];
        v.extend(wire::name_wire("mail.example."));
        v
    });
    z.add("alias.example.", wire::T_CNAME, 60, &wire::name_wire("www.example."));
    z.add("*.wild.example.", wire::T_TXT, 60, &wire::txt_rdata(b"wild"));
    for i in 0..40u8 {
        let mut t = vec![b'a' + (i % 26); 60];
        t[0] = i;
        z.add("big.example.", wire::T_TXT, 60, &wire::txt_rdata(&t));
    }
    z.add("sub.example.", wire::T_NS, 60, &wire::name_wire("ns.sub.example."));
    z.add("ns.sub.example.", wire::T_A, 60, &[10, 0, 0, 53]);
    if apex_big {
        for i in 0..12u8 {
            let mut t = vec![b'A' + (i % 26); 50];
            t[0] = i;
            z.add("example.", wire::T_TXT, 60, &wire::txt_rdata(&t));
        }
    }
    z.finish()
}

pub fn ask<C: quandary::db::Catalog>(server: &Server<C>, msg: &[u8], src: IpAddr, t: Transport) -> Option<Vec<u8>> {
    let mut buf = vec![0u8; 65535];
    match server.handle_message(msg, ReceivedInfo::new(src, t), &mut buf) {
        Response::Single(n) => Some(buf[..n].to_vec()),
        Response::None => None,
    }
}
/// Same with a caller-provided buffer (hot loops).
pub fn ask_buf<C: quandary::db::Catalog>(server: &Server<C>, msg: &[u8], src: IpAddr, t: Transport, buf: &mut [u8]) -> Option<usize> {
    match server.handle_message(msg, ReceivedInfo::new(src, t), buf) {
        Response::Single(n) => Some(n),
        Response::None => None,
    }
}
