//! Unit checks of the simulator itself (run by setup.sh): the simulated clock,
//! Condvar, sockets and file system behave as std / POSIX document.
use quandary_simrt as simrt;
use simrt::sched::{ClockPolicy, ExecPlan, SimScheduler, Strategy};
use simrt::sync::{Condvar, Mutex};
use std::io::{Read, Write};
use std::sync::atomic::{AtomicU64, Ordering::SeqCst};
use std::sync::Arc;
use std::time::Duration;

thread_local! { static EAGER: std::cell::Cell<bool> = const { std::cell::Cell::new(false) }; }

fn run_many(name: &str, n: u64, clock: ClockPolicy, f: fn()) -> bool {
    EAGER.with(|e| e.set(clock != ClockPolicy::Des));
    let mut i = 0u64;
    simrt::sched::set_plan_source(Box::new(move || {
        i += 1;
        if i > n {
            return None;
        }
        Some(ExecPlan {
            seed: i.wrapping_mul(0x9E3779B97F4A7C15),
            strategy: if i % 3 == 0 { Strategy::Pct { depth: 3, est_len: 50 } } else { Strategy::Random },
            clock,
            max_steps: 100_000,
        })
    }));
    let mut cfg = shuttle::Config::new();
    cfg.stack_size = 1 << 20;
    cfg.failure_persistence = shuttle::FailurePersistence::None;
    cfg.max_steps = shuttle::MaxSteps::None;
    let r = std::panic::catch_unwind(std::panic::AssertUnwindSafe(|| {
        shuttle::Runner::new(SimScheduler::new(), cfg).run(f);
    }));
    match r {
        Ok(()) => {
            println!("selftest {name}: ok ({n} executions)");
            true
        }
        Err(_) => {
            let m = crate::util::take_last_panic();
            println!("selftest {name}: FAILED {m:?}");
            false
        }
    }
}

fn sleepers() {
    simrt::start(simrt::WorldCfg::default());
    let order = Arc::new(std::sync::Mutex::new(vec![]));
    let hs: Vec<_> = [3u64, 1, 2]
        .into_iter()
        .map(|k| {
            let order = order.clone();
            shuttle::thread::spawn(move || {
                simrt::thread::sleep(Duration::from_micros(k));
                order.lock().unwrap().push((k, simrt::sim_elapsed_ns()));
            })
        })
        .collect();
    for h in hs {
        h.join().unwrap();
    }
    let o = order.lock().unwrap().clone();
    if EAGER.with(|e| e.get()) {
        // a slow thread may run and read the clock late, but never early
        assert!(o.iter().all(|(k, t)| *t >= k * 1000));
    } else {
        assert_eq!(o, vec![(1, 1000), (2, 2000), (3, 3000)]);
    }
    simrt::finish();
}

fn condvar_semantics() {
    simrt::start(simrt::WorldCfg::default());
    let pair = Arc::new((Mutex::new(false), Condvar::new()));
    // (a) time-out without notification
    {
        let g = pair.0.lock().unwrap();
        let t0 = simrt::now_ns();
        let (g, r) = pair.1.wait_timeout(g, Duration::from_millis(10)).unwrap();
        assert!(r.timed_out());
        assert!(simrt::now_ns() - t0 >= 10_000_000);
        drop(g);
    }
    // (b) notification before the deadline
    {
        let p2 = pair.clone();
        let h = shuttle::thread::spawn(move || {
            simrt::thread::sleep(Duration::from_millis(1));
            *p2.0.lock().unwrap() = true;
            p2.1.notify_one();
        });
        let mut g = pair.0.lock().unwrap();
        while !*g {
            let (g2, r) = pair.1.wait_timeout(g, Duration::from_secs(5)).unwrap();
            g = g2;
            // under the eager clock the notifier may legally be slower than the 5 s time-out
            assert!(EAGER.with(|e| e.get()) || !r.timed_out() || *g, "timed out although notified in time");
        }
        assert!(EAGER.with(|e| e.get()) || simrt::sim_elapsed_ns() < 5_000_000_000);
        drop(g);
        h.join().unwrap();
    }
    // (c) a notify_one after the waiter timed out does not count as consumed:
    //     a second waiter must still get it
    //     (DES only: under the eager clock the short waiter may start waiting late)
    if !EAGER.with(|e| e.get()) {
        let woken = Arc::new(AtomicU64::new(0));
        let flag = Arc::new((Mutex::new(0u32), Condvar::new()));
        let (f2, w2) = (flag.clone(), woken.clone());
        let short = shuttle::thread::spawn(move || {
            let g = f2.0.lock().unwrap();
            let (_g, r) = f2.1.wait_timeout(g, Duration::from_millis(1)).unwrap();
            if !r.timed_out() {
                w2.fetch_add(1, SeqCst);
            }
        });
        let (f3, w3) = (flag.clone(), woken.clone());
        let long = shuttle::thread::spawn(move || {
            let mut g = f3.0.lock().unwrap();
            while *g == 0 {
                g = f3.1.wait(g).unwrap();
            }
            w3.fetch_add(10, SeqCst);
        });
        simrt::thread::sleep(Duration::from_millis(2));
        *flag.0.lock().unwrap() = 1;
        flag.1.notify_one();
        short.join().unwrap();
        long.join().unwrap();
        assert_eq!(woken.load(SeqCst), 10);
    }
    simrt::finish();
}

fn tcp_and_udp() {
    simrt::start(simrt::WorldCfg::default());
    let saddr: std::net::SocketAddr = "10.0.0.1:53".parse().unwrap();
    let caddr: std::net::SocketAddr = "10.0.0.2:4000".parse().unwrap();
    let l = simrt::net::TcpListener::bind(saddr).unwrap();
    assert!(!l.poll_accept(Duration::from_millis(5)).unwrap());
    assert_eq!(simrt::sim_elapsed_ns(), 5_000_000);
    let mut c = simrt::net::connect(saddr, caddr, 8).unwrap();
    assert!(l.poll_accept(Duration::from_millis(5)).unwrap());
    let (mut s, peer) = l.accept().unwrap();
    assert_eq!(peer, caddr);
    assert!(matches!(l.accept(), Err(e) if e.kind() == std::io::ErrorKind::WouldBlock));
    c.write_all(b"hello").unwrap();
    let mut buf = [0u8; 16];
    assert_eq!(s.read(&mut buf).unwrap(), 5);
    s.set_read_timeout(Some(Duration::from_millis(3))).unwrap();
    let t0 = simrt::now_ns();
    assert!(matches!(s.read(&mut buf), Err(e) if e.kind() == std::io::ErrorKind::WouldBlock));
    assert_eq!(simrt::now_ns() - t0, 3_000_000);
    assert!(s.set_read_timeout(Some(Duration::ZERO)).is_err());
    // back-pressure: capacity towards the client is 8 octets
    let h = shuttle::thread::spawn(move || {
        s.write_all(b"0123456789abcdef").unwrap();
        drop(s);
    });
    simrt::thread::sleep(Duration::from_millis(1));
    let mut got: Vec<u8> = vec![];
    loop {
        let n = c.read(&mut buf).unwrap();
        if n == 0 {
            break;
        }
        got.extend(&buf[..n]);
    }
    assert_eq!(got, b"0123456789abcdef");
    h.join().unwrap();
    assert!(matches!(c.write(b"x"), Err(e) if e.kind() == std::io::ErrorKind::BrokenPipe));
    // UDP
    let mut us = simrt::net::UdpSocket::bind(saddr).unwrap();
    let mut uc = simrt::net::UdpSocket::bind_client(caddr).unwrap();
    us.set_read_timeout(Some(Duration::from_millis(2))).unwrap();
    assert!(matches!(us.recv(&mut buf), Err(e) if e.kind() == std::io::ErrorKind::WouldBlock));
    simrt::net::send_datagram(caddr, saddr, b"0123456789abcdefXYZ");
    let (n, src, dst) = us.recv(&mut buf).unwrap();
    assert_eq!((n, src, dst), (16, caddr, saddr.ip()));
    us.send(b"pong", src, dst).unwrap();
    let (n, src, _) = uc.recv(&mut buf).unwrap();
    assert_eq!((&buf[..n], src), (&b"pong"[..], saddr));
    simrt::finish();
}

fn filesystem() {
    simrt::start(simrt::WorldCfg::default());
    use simrt::fs;
    fs::mkdir("/d");
    fs::write("/d/a", b"abcdef");
    let m1 = fs::metadata("/d/a").unwrap().modified().unwrap();
    simrt::advance(Duration::from_secs(1));
    fs::write("/d/a", b"abcdefgh");
    let m2 = fs::metadata("/d/a").unwrap().modified().unwrap();
    assert_eq!(m2.duration_since(m1).unwrap(), Duration::from_secs(1));
    assert_eq!(fs::read("/d/./x/../a").unwrap(), b"abcdefgh");
    assert_eq!(fs::read("/d/missing").unwrap_err().kind(), std::io::ErrorKind::NotFound);
    assert!(fs::read("/d").is_err());
    fs::set_eio("/d/a", Some(3));
    let mut f = fs::File::open("/d/a").unwrap();
    let mut b = [0u8; 8];
    assert_eq!(f.read(&mut b).unwrap(), 3);
    assert!(f.read(&mut b).is_err());
    simrt::finish();
}

/// Contained crashes: a simulated thread crashes; its drop handlers take locks (and therefore
/// yield) while the unwind is in flight; other threads keep running meanwhile and must see
/// neither `panicking()` nor poisoned locks; a lock held across the crash is poisoned as std
/// would poison it; the execution goes on and ends normally.
fn contained_crash() {
    use std::sync::atomic::AtomicBool;
    simrt::start(simrt::WorldCfg::default());
    struct OnDrop(Arc<Mutex<u32>>, Arc<AtomicBool>, Arc<Condvar>);
    impl Drop for OnDrop {
        fn drop(&mut self) {
            // like quandary's RespawnableHandle: asks panicking(), locks, waits with a time-out
            self.1.store(simrt::thread::panicking(), SeqCst);
            let g = self.0.lock().unwrap();
            let (mut g, _) = self.2.wait_timeout(g, Duration::from_millis(5)).unwrap();
            *g += 100;
        }
    }
    let shared = Arc::new(Mutex::new(0u32));
    let held = Arc::new(Mutex::new(0u32));
    let cv = Arc::new(Condvar::new());
    let saw_panicking_in_drop = Arc::new(AtomicBool::new(false));
    let others_saw_panicking = Arc::new(AtomicBool::new(false));
    let crasher = {
        let (shared, held, cv, saw) = (shared.clone(), held.clone(), cv.clone(), saw_panicking_in_drop.clone());
        simrt::thread::Builder::new()
            .name("crasher".into())
            .spawn(move || {
                let _d = OnDrop(shared, saw, cv);
                let _h = held.lock().unwrap(); // held across the crash: must end up poisoned
                simrt::thread::sleep(Duration::from_millis(1));
                simrt::thread::crash();
            })
            .unwrap()
    };
    let workers: Vec<_> = (0..2)
        .map(|_| {
            let (shared, others) = (shared.clone(), others_saw_panicking.clone());
            simrt::thread::spawn(move || {
                for _ in 0..6 {
                    let mut g = shared.lock().unwrap(); // must never be poisoned
                    *g += 1;
                    if simrt::thread::panicking() {
                        others.store(true, SeqCst);
                    }
                    drop(g);
                    simrt::thread::sleep(Duration::from_millis(1));
                }
            })
        })
        .collect();
    assert!(crasher.join().is_err(), "a crashed thread must join as Err");
    for w in workers {
        w.join().expect("worker");
    }
    assert!(saw_panicking_in_drop.load(SeqCst), "panicking() must be true in the crashed thread's drop handlers");
    assert!(!others_saw_panicking.load(SeqCst), "panicking() must be false in threads that do not unwind");
    assert_eq!(*shared.lock().unwrap(), 112);
    assert!(held.lock().is_err(), "a lock held across the crash must be poisoned");
    assert!(!simrt::thread::panicking());
    simrt::thread::wait_all_exited();
    simrt::finish();
}

pub fn run() -> i32 {
    let mut ok = true;
    ok &= run_many("sleepers-des", 300, ClockPolicy::Des, sleepers);
    ok &= run_many("sleepers-eager", 300, ClockPolicy::Eager(30), sleepers);
    ok &= run_many("condvar-des", 500, ClockPolicy::Des, condvar_semantics);
    ok &= run_many("condvar-eager", 500, ClockPolicy::Eager(30), condvar_semantics);
    ok &= run_many("tcp-udp", 200, ClockPolicy::Des, tcp_and_udp);
    ok &= run_many("filesystem", 20, ClockPolicy::Des, filesystem);
    ok &= run_many("contained-crash-des", 500, ClockPolicy::Des, contained_crash);
    ok &= run_many("contained-crash-eager", 500, ClockPolicy::Eager(30), contained_crash);
    if ok {
        0
    } else {
        2
    }
}
