#!/bin/bash
# Builds simrt + hooked quandary (shadow manifest) + harness, offline, from the
# repository's current working tree. A content hash of the repository sources
# guards against stale binaries (an edited file with an old mtime).
set -eu
here="$(cd "$(dirname "$0")" && pwd)"
export CARGO_NET_OFFLINE=true
repo="${VERIF_REPO:-/repo}"
python3 "$here/mkshadow.py"
cd "$here/harness"
stamp="$here/target/.repo-hash"
new=$( (cd "$repo" && find src Cargo.toml -type f -print0 | sort -z | xargs -0 sha256sum) | sha256sum | cut -d' ' -f1)
old=$(cat "$stamp" 2>/dev/null || true)
if [ "$new" != "$old" ] && [ -d "$here/target/release" ]; then
  # force cargo to rebuild the repository-dependent crates
  cargo clean --release -p quandary -p simcheck >/dev/null 2>&1 || true
fi
out=$(cargo build --release 2>&1) || { echo "$out" | grep -E "^error" -A12 | head -60; exit 1; }
if [ "${VERIF_PROFILE:-}" = "shipped" ]; then
  # second build with the shipped arithmetic: overflow checks and debug assertions off
  out=$(cargo build --profile shipped 2>&1) || { echo "$out" | grep -E "^error" -A12 | head -60; exit 1; }
fi
mkdir -p "$here/target"
echo "$new" > "$stamp"
