//! Deterministic stand-in for `std::collections::hash_map::RandomState`.
use std::hash::{BuildHasher, Hasher};

/// Keyed hasher state; the key is the execution's `hash_key` at creation.
#[derive(Clone, Debug)]
pub struct RandomState(u64);
impl RandomState {
    #[allow(clippy::new_without_default)]
    pub fn new() -> Self {
        RandomState(crate::hash_key())
    }
}
impl Default for RandomState {
    fn default() -> Self {
        Self::new()
    }
}
impl BuildHasher for RandomState {
    type Hasher = std::collections::hash_map::DefaultHasher;
    fn build_hasher(&self) -> Self::Hasher {
        let mut h = std::collections::hash_map::DefaultHasher::new();
        h.write_u64(self.0);
        h
    }
}
