//! Simulated `std::thread`.
use crate::{add_timer, block_me, me, now_ns, unblock, Fault};
use shuttle_engine::runtime::task::TaskId;
use std::cell::{Cell, RefCell};
use std::rc::Rc;
use std::time::Duration;

pub use shuttle::thread::{current, yield_now, JoinHandle, Thread, ThreadId};
pub use std::thread::panicking;

/// Upper bound on threads the code under test may create in one execution.
pub const MAX_THREADS_PER_EXECUTION: usize = 400;

thread_local! {
    static LIVE: Cell<usize> = const { Cell::new(0) };
    static SPAWNED: Cell<usize> = const { Cell::new(0) };
    static EXIT_WAITERS: RefCell<Vec<TaskId>> = const { RefCell::new(Vec::new()) };
}
pub(crate) fn reset() {
    LIVE.with(|l| l.set(0));
    SPAWNED.with(|l| l.set(0));
    EXIT_WAITERS.with(|w| w.borrow_mut().clear());
}
/// Threads created through [`Builder::spawn`] (i.e. by the code under test)
/// that have not yet returned from their closure.
pub fn live() -> usize {
    LIVE.with(|l| l.get())
}
pub fn spawned() -> usize {
    SPAWNED.with(|l| l.get())
}
/// Blocks the calling task until every thread created by the code under test
/// has returned. If one of them is blocked forever the engine reports a
/// deadlock naming it.
pub fn wait_all_exited() {
    while live() > 0 {
        EXIT_WAITERS.with(|w| w.borrow_mut().push(me()));
        block_me();
    }
}
fn thread_exit() {
    LIVE.with(|l| l.set(l.get() - 1));
    let ws: Vec<TaskId> = EXIT_WAITERS.with(|w| w.borrow_mut().drain(..).collect());
    for w in ws {
        unblock(w);
    }
}

#[derive(Debug, Default)]
pub struct Builder {
    name: Option<String>,
}
impl Builder {
    pub fn new() -> Self {
        Builder { name: None }
    }
    pub fn name(mut self, name: String) -> Self {
        self.name = Some(name);
        self
    }
    pub fn stack_size(self, _s: usize) -> Self {
        self
    }
    #[track_caller]
    pub fn spawn<F, T>(self, f: F) -> std::io::Result<JoinHandle<T>>
    where
        F: FnOnce() -> T + Send + 'static,
        T: Send + 'static,
    {
        if crate::fault(Fault::SpawnFail) {
            // EAGAIN, as pthread_create gives under resource exhaustion
            return Err(std::io::Error::from_raw_os_error(11));
        }
        LIVE.with(|l| l.set(l.get() + 1));
        SPAWNED.with(|l| l.set(l.get() + 1));
        if spawned() > MAX_THREADS_PER_EXECUTION {
            // Every task keeps its stack until the execution ends; an execution
            // that keeps respawning threads is ended like one that exhausts
            // its step bound.
            crate::ABORT.with(|a| a.set(true));
            crate::check_abort();
        }
        let mut b = shuttle::thread::Builder::new();
        if let Some(n) = self.name {
            b = b.name(n);
        }
        b.spawn(move || {
            let r = f();
            thread_exit();
            r
        })
    }
}
#[track_caller]
pub fn spawn<F, T>(f: F) -> JoinHandle<T>
where
    F: FnOnce() -> T + Send + 'static,
    T: Send + 'static,
{
    LIVE.with(|l| l.set(l.get() + 1));
    SPAWNED.with(|l| l.set(l.get() + 1));
    shuttle::thread::spawn(move || {
        let r = f();
        thread_exit();
        r
    })
}

/// Sleeps for `d` of simulated time (a timer on the simulated clock).
pub fn sleep(d: Duration) {
    let deadline = now_ns().saturating_add(u64::try_from(d.as_nanos()).unwrap_or(u64::MAX));
    let fired = Rc::new(Cell::new(false));
    let (f2, task) = (fired.clone(), me());
    add_timer(
        deadline,
        Box::new(move || {
            f2.set(true);
            unblock(task);
        }),
    );
    while !fired.get() {
        block_me();
    }
}
