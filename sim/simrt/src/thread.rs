//! Simulated `std::thread`.
use crate::{add_timer, block_me, me, now_ns, unblock, Fault};
use shuttle_engine::runtime::task::TaskId;
use std::cell::{Cell, RefCell};
use std::rc::Rc;
use std::time::Duration;

pub use shuttle::thread::{current, yield_now, Thread, ThreadId};
use shuttle_engine::contained_unwind;
use std::collections::BTreeSet;

/// Payload of a simulated crash (see [`crash`]).
pub struct InjectedCrash;

thread_local! {
    /// tasks that are unwinding because of an injected crash
    static CRASHING: RefCell<BTreeSet<usize>> = const { RefCell::new(BTreeSet::new()) };
}

/// `std::thread::panicking()` for simulated threads: true while *this* task unwinds (because of
/// an injected crash or of a genuine panic). All tasks share one OS thread, so std's own answer
/// would also be true in every other task that runs while a crashed task's drop handlers are
/// blocked on a lock.
pub fn panicking() -> bool {
    // May be called from drop handlers that run outside any execution (tear-down of an aborted
    // execution): never touch the execution state unless a crash is actually in flight, and
    // never panic here.
    // (`try_with`: this also runs from thread-local destructors at OS-thread exit)
    let crashing_here = CRASHING
        .try_with(|c| match c.try_borrow() {
            Ok(set) if !set.is_empty() => crate::try_me_usize().map(|me| set.contains(&me)).unwrap_or(false),
            _ => false,
        })
        .unwrap_or(false);
    crashing_here || contained_unwind::panicking()
}

/// Fault `task_panic`: the calling simulated thread crashes here - it unwinds like a panicking
/// thread (drop handlers of the code under test run, `panicking()` is true in them) and the
/// unwind is caught at the thread's entry point, so the execution goes on without this thread.
pub fn crash() -> ! {
    CRASHING.with(|c| c.borrow_mut().insert(crate::me_usize()));
    contained_unwind::enter();
    crate::count_fault(Fault::TaskPanic);
    crate::event("task_crash", crate::me_usize() as u64, 0);
    // resume_unwind: no panic hook, no message; the payload marks the unwind as ours
    std::panic::resume_unwind(Box::new(InjectedCrash))
}

/// Runs a thread body; an injected crash ends here (returns `None`), anything else goes on up.
fn run_contained<F: FnOnce() -> T, T>(f: F) -> Option<T> {
    match std::panic::catch_unwind(std::panic::AssertUnwindSafe(f)) {
        Ok(v) => Some(v),
        Err(p) if p.is::<InjectedCrash>() => {
            CRASHING.with(|c| c.borrow_mut().remove(&crate::me_usize()));
            contained_unwind::exit();
            crate::probe("thread_crash_contained");
            None
        }
        Err(p) => std::panic::resume_unwind(p),
    }
}

/// Handle on a simulated thread; `join` reports a crashed thread like std reports a panicked one.
pub struct JoinHandle<T>(shuttle::thread::JoinHandle<Option<T>>);
impl<T> JoinHandle<T> {
    pub fn join(self) -> std::thread::Result<T> {
        match self.0.join() {
            Ok(Some(v)) => Ok(v),
            Ok(None) => Err(Box::new("simulated thread crashed")),
            Err(e) => Err(e),
        }
    }
    pub fn thread(&self) -> &Thread {
        self.0.thread()
    }
}

/// Upper bound on threads the code under test may create in one execution.
pub const MAX_THREADS_PER_EXECUTION: usize = 400;

thread_local! {
    static LIVE: Cell<usize> = const { Cell::new(0) };
    static SPAWNED: Cell<usize> = const { Cell::new(0) };
    static EXIT_WAITERS: RefCell<Vec<TaskId>> = const { RefCell::new(Vec::new()) };
}
pub(crate) fn reset() {
    CRASHING.with(|c| c.borrow_mut().clear());
    LIVE.with(|l| l.set(0));
    SPAWNED.with(|l| l.set(0));
    EXIT_WAITERS.with(|w| w.borrow_mut().clear());
}
/// Threads created through [`Builder::spawn`] (i.e. by the code under test)
/// that have not yet returned from their closure.
pub fn live() -> usize {
    LIVE.with(|l| l.get())
}
pub fn spawned() -> usize {
    SPAWNED.with(|l| l.get())
}
/// Blocks the calling task until every thread created by the code under test
/// has returned. If one of them is blocked forever the engine reports a
/// deadlock naming it.
pub fn wait_all_exited() {
    while live() > 0 {
        EXIT_WAITERS.with(|w| w.borrow_mut().push(me()));
        block_me();
    }
}
fn thread_exit() {
    LIVE.with(|l| l.set(l.get() - 1));
    let ws: Vec<TaskId> = EXIT_WAITERS.with(|w| w.borrow_mut().drain(..).collect());
    for w in ws {
        unblock(w);
    }
}

#[derive(Debug, Default)]
pub struct Builder {
    name: Option<String>,
}
impl Builder {
    pub fn new() -> Self {
        Builder { name: None }
    }
    pub fn name(mut self, name: String) -> Self {
        self.name = Some(name);
        self
    }
    pub fn stack_size(self, _s: usize) -> Self {
        self
    }
    #[track_caller]
    pub fn spawn<F, T>(self, f: F) -> std::io::Result<JoinHandle<T>>
    where
        F: FnOnce() -> T + Send + 'static,
        T: Send + 'static,
    {
        if crate::fault(Fault::SpawnFail) {
            // EAGAIN, as pthread_create gives under resource exhaustion
            return Err(std::io::Error::from_raw_os_error(11));
        }
        LIVE.with(|l| l.set(l.get() + 1));
        SPAWNED.with(|l| l.set(l.get() + 1));
        if spawned() > MAX_THREADS_PER_EXECUTION {
            // Every task keeps its stack until the execution ends; an execution
            // that keeps respawning threads is ended like one that exhausts
            // its step bound.
            crate::ABORT.with(|a| a.set(true));
            crate::check_abort();
        }
        let mut b = shuttle::thread::Builder::new();
        if let Some(n) = self.name {
            b = b.name(n);
        }
        b.spawn(move || {
            let r = run_contained(f);
            thread_exit();
            r
        })
        .map(JoinHandle)
    }
}
#[track_caller]
pub fn spawn<F, T>(f: F) -> JoinHandle<T>
where
    F: FnOnce() -> T + Send + 'static,
    T: Send + 'static,
{
    LIVE.with(|l| l.set(l.get() + 1));
    SPAWNED.with(|l| l.set(l.get() + 1));
    JoinHandle(shuttle::thread::spawn(move || {
        let r = run_contained(f);
        thread_exit();
        r
    }))
}

/// Sleeps for `d` of simulated time (a timer on the simulated clock).
pub fn sleep(d: Duration) {
    let deadline = now_ns().saturating_add(u64::try_from(d.as_nanos()).unwrap_or(u64::MAX));
    let fired = Rc::new(Cell::new(false));
    let (f2, task) = (fired.clone(), me());
    add_timer(
        deadline,
        Box::new(move || {
            f2.set(true);
            unblock(task);
        }),
    );
    while !fired.get() {
        block_me();
    }
}
