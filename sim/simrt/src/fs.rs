//! In-memory file system behind the `std::fs` seam.
//!
//! The harness writes files and decides their mtimes (stamped from the
//! simulated wall clock); faults are attributes of a path (`enoent` = absent,
//! `eisdir` = a directory where a file is expected, `eio_at(k)`, `torn(k)`)
//! plus the coin-driven read faults `fs_short_read` and `fs_eintr_read`.
use crate::Fault;
use std::cell::RefCell;
use std::collections::BTreeMap;
use std::io;
use std::path::{Component, Path, PathBuf};
use std::time::SystemTime;

#[derive(Clone, Debug)]
pub enum Node {
    File {
        data: Vec<u8>,
        mtime: SystemTime,
        /// reads fail with EIO once this many octets have been returned
        eio_at: Option<usize>,
        /// metadata() fails with EACCES-like error
        meta_err: bool,
    },
    Dir {
        mtime: SystemTime,
    },
}
thread_local! {
    static FS: RefCell<BTreeMap<PathBuf, Node>> = const { RefCell::new(BTreeMap::new()) };
    static OPENS: RefCell<Vec<PathBuf>> = const { RefCell::new(Vec::new()) };
    /// lowest / highest stack address seen in a file-system call of the code under test
    static SP: std::cell::Cell<(usize, usize)> = const { std::cell::Cell::new((usize::MAX, 0)) };
}
/// Notes how deep the stack is at this file-system call. The seam sits at the bottom of every
/// call chain of the parsers, so the spread of these addresses over one parse is (to within a
/// frame) the stack the code under test used - a resource the simulator can watch without any
/// hook in that code.
#[inline(never)]
fn note_stack() {
    let probe = 0u8;
    let sp = &probe as *const u8 as usize;
    let _ = SP.try_with(|c| {
        let (lo, hi) = c.get();
        c.set((lo.min(sp), hi.max(sp)));
    });
}
/// Forgets the stack addresses seen so far.
pub fn reset_stack_extent() {
    SP.with(|c| c.set((usize::MAX, 0)));
}
/// Spread (octets) of the stack addresses at which the code under test made file-system calls
/// since the last reset; 0 if it made fewer than two.
pub fn stack_extent() -> usize {
    let (lo, hi) = SP.with(|c| c.get());
    hi.saturating_sub(lo.min(hi))
}
pub(crate) fn reset() {
    FS.with(|f| f.borrow_mut().clear());
    OPENS.with(|o| o.borrow_mut().clear());
}
fn norm(p: &Path) -> PathBuf {
    let mut out = PathBuf::new();
    for c in p.components() {
        match c {
            Component::ParentDir => {
                out.pop();
            }
            Component::CurDir => {}
            c => out.push(c.as_os_str()),
        }
    }
    out
}

// --- harness side ---------------------------------------------------------------

/// Creates or replaces a file; mtime = simulated wall clock now.
pub fn write(p: impl AsRef<Path>, data: &[u8]) {
    let mtime = crate::time::wall_now();
    write_with_mtime(p, data, mtime);
}
pub fn write_with_mtime(p: impl AsRef<Path>, data: &[u8], mtime: SystemTime) {
    FS.with(|f| {
        f.borrow_mut().insert(
            norm(p.as_ref()),
            Node::File { data: data.to_vec(), mtime, eio_at: None, meta_err: false },
        );
    });
}
pub fn set_eio(p: impl AsRef<Path>, at: Option<usize>) {
    FS.with(|f| {
        if let Some(Node::File { eio_at, .. }) = f.borrow_mut().get_mut(&norm(p.as_ref())) {
            *eio_at = at;
        }
    });
}
pub fn mkdir(p: impl AsRef<Path>) {
    FS.with(|f| {
        let mtime = crate::time::wall_now();
        f.borrow_mut().insert(norm(p.as_ref()), Node::Dir { mtime });
    });
}
pub fn remove(p: impl AsRef<Path>) {
    FS.with(|f| {
        f.borrow_mut().remove(&norm(p.as_ref()));
    });
}
pub fn exists(p: impl AsRef<Path>) -> bool {
    FS.with(|f| f.borrow().contains_key(&norm(p.as_ref())))
}
/// Paths opened by the code under test so far (in order).
pub fn take_opens() -> Vec<PathBuf> {
    OPENS.with(|o| std::mem::take(&mut *o.borrow_mut()))
}

// --- code-under-test side (std::fs look-alikes) ----------------------------------

fn get(p: &Path) -> io::Result<Node> {
    match FS.with(|f| f.borrow().get(&norm(p)).cloned()) {
        Some(n) => Ok(n),
        None => {
            crate::count_fault(Fault::FsEnoent);
            Err(io::Error::from_raw_os_error(2))
        }
    }
}

pub struct File {
    data: Vec<u8>,
    pos: usize,
    eio_at: Option<usize>,
    is_dir: bool,
}
impl File {
    pub fn open(p: impl AsRef<Path>) -> io::Result<File> {
        note_stack();
        crate::switch(); // a system call: other simulated threads may run here
        OPENS.with(|o| o.borrow_mut().push(norm(p.as_ref())));
        match get(p.as_ref())? {
            Node::File { data, eio_at, .. } => Ok(File { data, pos: 0, eio_at, is_dir: false }),
            // open(2) of a directory succeeds read-only; read(2) then gives EISDIR
            Node::Dir { .. } => Ok(File { data: vec![], pos: 0, eio_at: None, is_dir: true }),
        }
    }
}
impl io::Read for File {
    fn read(&mut self, buf: &mut [u8]) -> io::Result<usize> {
        note_stack();
        crate::switch();
        if self.is_dir {
            crate::count_fault(Fault::FsEisdir);
            return Err(io::Error::from_raw_os_error(21));
        }
        if crate::fault(Fault::FsEintr) {
            return Err(io::Error::from(io::ErrorKind::Interrupted));
        }
        let mut end = self.data.len();
        if let Some(k) = self.eio_at {
            if self.pos >= k {
                crate::count_fault(Fault::FsEioAt);
                return Err(io::Error::from_raw_os_error(5));
            }
            end = end.min(k);
        }
        let mut n = buf.len().min(end - self.pos);
        if n > 1 && crate::fault(Fault::FsShortRead) {
            n = 1 + crate::rng_below(n as u64 - 1) as usize;
        }
        buf[..n].copy_from_slice(&self.data[self.pos..self.pos + n]);
        self.pos += n;
        Ok(n)
    }
}
pub struct Metadata {
    mtime: SystemTime,
}
impl Metadata {
    pub fn modified(&self) -> io::Result<SystemTime> {
        Ok(self.mtime)
    }
}
pub fn metadata(p: impl AsRef<Path>) -> io::Result<Metadata> {
    crate::switch();
    match get(p.as_ref())? {
        Node::File { meta_err: true, .. } => Err(io::Error::from_raw_os_error(13)),
        Node::File { mtime, .. } => Ok(Metadata { mtime }),
        Node::Dir { mtime } => Ok(Metadata { mtime }),
    }
}
pub fn read(p: impl AsRef<Path>) -> io::Result<Vec<u8>> {
    let mut f = File::open(p)?;
    let mut v = Vec::new();
    io::Read::read_to_end(&mut f, &mut v)?;
    Ok(v)
}
pub fn read_to_string(p: impl AsRef<Path>) -> io::Result<String> {
    String::from_utf8(read(p)?).map_err(|_| io::Error::from(io::ErrorKind::InvalidData))
}
