//! Simulated blocking TCP/UDP sockets (engine E1).
//!
//! The "kernel" state lives in thread-local cells; a blocking call registers
//! the calling task on a wait queue and blocks it on the engine, time-outs are
//! timers on the simulated clock. Every socket call starts with a scheduling
//! point, like a system call. Faults are injected on the *server side* objects
//! only (the ones handed to quandary); the client side is driven explicitly by
//! the harness.
use crate::{add_timer, block_me, cancel_timer, me, now_ns, unblock, Fault};
use shuttle_engine::runtime::task::TaskId;
use std::cell::{Cell, RefCell};
use std::collections::{BTreeMap, VecDeque};
use std::io::{self, Read, Write};
use std::net::{IpAddr, SocketAddr};
use std::rc::Rc;
use std::time::Duration;

// --- wait queue -----------------------------------------------------------------

#[derive(Default)]
struct WaitQ(RefCell<Vec<TaskId>>);
impl WaitQ {
    /// Blocks until woken or until `deadline` (absolute ns). Returns true on time-out.
    fn wait(&self, deadline: Option<u64>) -> bool {
        let task = me();
        self.0.borrow_mut().push(task);
        let fired = Rc::new(Cell::new(false));
        let timer = deadline.map(|d| {
            let f2 = fired.clone();
            add_timer(
                d,
                Box::new(move || {
                    f2.set(true);
                    unblock(task);
                }),
            )
        });
        block_me();
        self.0.borrow_mut().retain(|t| *t != task);
        if let Some(t) = timer {
            if !fired.get() {
                cancel_timer(t);
            }
        }
        fired.get()
    }
    fn wake_all(&self) {
        let ws: Vec<TaskId> = self.0.borrow_mut().drain(..).collect();
        for w in ws {
            unblock(w);
        }
    }
}

fn deadline_after(d: Option<Duration>) -> Option<u64> {
    d.map(|d| now_ns().saturating_add(u64::try_from(d.as_nanos()).unwrap_or(u64::MAX)))
}

fn timeout_error() -> io::Error {
    // Linux reports EAGAIN (WouldBlock) for SO_RCVTIMEO, Windows TimedOut; both legal.
    if crate::fault(Fault::TimeoutAsTimedOut) {
        io::Error::from(io::ErrorKind::TimedOut)
    } else {
        io::Error::from(io::ErrorKind::WouldBlock)
    }
}

// --- TCP --------------------------------------------------------------------------

struct Pipe {
    buf: VecDeque<u8>,
    /// writer closed its end: reader sees EOF after the buffered data
    wr_closed: bool,
    /// reader is gone: writer gets EPIPE
    rd_closed: bool,
    cap: usize,
}
struct Conn {
    /// pipes[i] holds the octets flowing *towards* side i
    pipes: RefCell<[Pipe; 2]>,
    reset: Cell<bool>,
    wq: WaitQ,
    id: u64,
}

/// One end of a simulated TCP connection. Side 0 = client, side 1 = server.
pub struct TcpStream {
    conn: Rc<Conn>,
    side: usize,
    read_timeout: Cell<Option<Duration>>,
    faulty: bool,
    /// shared by all handles of this end (`try_clone`); the end closes when the last one goes
    token: Rc<EndToken>,
}
struct EndToken {
    conn: Rc<Conn>,
    side: usize,
}
impl Drop for EndToken {
    fn drop(&mut self) {
        if let Ok(mut pipes) = self.conn.pipes.try_borrow_mut() {
            pipes[1 - self.side].wr_closed = true;
            pipes[self.side].rd_closed = true;
        }
        if !crate::thread::panicking() {
            self.conn.wq.wake_all();
        }
    }
}
// Safety: simulated threads are coroutines on one OS thread.
unsafe impl Send for TcpStream {}
unsafe impl Sync for TcpStream {}

impl TcpStream {
    fn pair(cap_to_client: usize, cap_to_server: usize, id: u64) -> (TcpStream, TcpStream) {
        let mk = |cap| Pipe { buf: VecDeque::new(), wr_closed: false, rd_closed: false, cap };
        let c = Rc::new(Conn {
            pipes: RefCell::new([mk(cap_to_client), mk(cap_to_server)]),
            reset: Cell::new(false),
            wq: WaitQ::default(),
            id,
        });
        let end = |side: usize, faulty: bool| TcpStream {
            conn: c.clone(),
            side,
            read_timeout: Cell::new(None),
            faulty,
            token: Rc::new(EndToken { conn: c.clone(), side }),
        };
        (end(0, false), end(1, true))
    }
    /// Another handle on the same end of the connection (like std's `try_clone`).
    pub fn try_clone(&self) -> io::Result<TcpStream> {
        Ok(TcpStream {
            conn: self.conn.clone(),
            side: self.side,
            read_timeout: Cell::new(self.read_timeout.get()),
            faulty: self.faulty,
            token: self.token.clone(),
        })
    }
    pub fn conn_id(&self) -> u64 {
        self.conn.id
    }
    pub fn set_nonblocking(&self, _nb: bool) -> io::Result<()> {
        Ok(())
    }
    pub fn set_read_timeout(&self, t: Option<Duration>) -> io::Result<()> {
        if t == Some(Duration::ZERO) {
            // as std: "cannot set a 0 duration timeout"
            return Err(io::Error::new(io::ErrorKind::InvalidInput, "cannot set a 0 duration timeout"));
        }
        self.read_timeout.set(t);
        Ok(())
    }
    /// Client action: abortive close (RST). Both directions fail afterwards.
    pub fn reset(&self) {
        crate::switch();
        self.conn.reset.set(true);
        self.conn.wq.wake_all();
    }
    /// Client action: half-close (FIN); the peer reads EOF after buffered data.
    pub fn shutdown_write(&self) {
        crate::switch();
        self.conn.pipes.borrow_mut()[1 - self.side].wr_closed = true;
        self.conn.wq.wake_all();
    }
    /// Octets buffered towards this side (not yet read).
    pub fn readable(&self) -> usize {
        self.conn.pipes.borrow()[self.side].buf.len()
    }
    /// Whether the peer has closed (dropped) its end.
    pub fn peer_closed(&self) -> bool {
        let p = self.conn.pipes.borrow();
        p[self.side].wr_closed || self.conn.reset.get()
    }
}

impl Read for TcpStream {
    fn read(&mut self, out: &mut [u8]) -> io::Result<usize> {
        crate::switch();
        if self.faulty && crate::fault(Fault::EintrRead) {
            return Err(io::Error::from(io::ErrorKind::Interrupted));
        }
        let deadline = deadline_after(self.read_timeout.get());
        loop {
            if self.conn.reset.get() {
                return Err(io::Error::from(io::ErrorKind::ConnectionReset));
            }
            {
                let mut pipes = self.conn.pipes.borrow_mut();
                let p = &mut pipes[self.side];
                if !p.buf.is_empty() && !out.is_empty() {
                    let mut n = out.len().min(p.buf.len());
                    drop(pipes);
                    if self.faulty && n > 1 && crate::fault(Fault::TcpShortRead) {
                        n = 1 + crate::rng_below(n as u64 - 1) as usize;
                    }
                    let mut pipes = self.conn.pipes.borrow_mut();
                    let p = &mut pipes[self.side];
                    for b in out[..n].iter_mut() {
                        *b = p.buf.pop_front().unwrap();
                    }
                    drop(pipes);
                    self.conn.wq.wake_all(); // a blocked writer may continue
                    return Ok(n);
                }
                if p.wr_closed || out.is_empty() {
                    return Ok(0);
                }
            }
            if let Some(d) = deadline {
                if now_ns() >= d {
                    return Err(timeout_error());
                }
            }
            if self.conn.wq.wait(deadline) {
                // timed out; re-check data once (data and time-out may coincide)
                let has = !self.conn.pipes.borrow()[self.side].buf.is_empty();
                if !has {
                    if self.conn.reset.get() {
                        return Err(io::Error::from(io::ErrorKind::ConnectionReset));
                    }
                    if self.conn.pipes.borrow()[self.side].wr_closed {
                        return Ok(0);
                    }
                    return Err(timeout_error());
                }
            }
        }
    }
}

impl Write for TcpStream {
    fn write(&mut self, data: &[u8]) -> io::Result<usize> {
        crate::switch();
        if data.is_empty() {
            return Ok(0);
        }
        if self.faulty && crate::fault(Fault::EintrWrite) {
            return Err(io::Error::from(io::ErrorKind::Interrupted));
        }
        loop {
            if self.conn.reset.get() {
                return Err(io::Error::from(io::ErrorKind::ConnectionReset));
            }
            let room = {
                let pipes = self.conn.pipes.borrow();
                let p = &pipes[1 - self.side];
                if p.rd_closed {
                    return Err(io::Error::from(io::ErrorKind::BrokenPipe));
                }
                p.cap.saturating_sub(p.buf.len())
            };
            if room > 0 {
                let mut n = data.len().min(room);
                if self.faulty && n > 1 && crate::fault(Fault::TcpShortWrite) {
                    n = 1 + crate::rng_below(n as u64 - 1) as usize;
                }
                self.conn.pipes.borrow_mut()[1 - self.side].buf.extend(data[..n].iter().copied());
                self.conn.wq.wake_all();
                return Ok(n);
            }
            crate::probe("tcp_write_blocked_on_backpressure");
            self.conn.wq.wait(None);
        }
    }
    fn flush(&mut self) -> io::Result<()> {
        Ok(())
    }
}

struct ListenerInner {
    q: RefCell<VecDeque<(TcpStream, SocketAddr)>>,
    wq: WaitQ,
}
#[derive(Clone)]
pub struct TcpListener(Rc<ListenerInner>);
unsafe impl Send for TcpListener {}
unsafe impl Sync for TcpListener {}

impl TcpListener {
    pub fn bind(addr: SocketAddr) -> io::Result<Self> {
        let l = TcpListener(Rc::new(ListenerInner { q: RefCell::new(VecDeque::new()), wq: WaitQ::default() }));
        let dup = NET.with(|n| n.borrow_mut().listeners.insert(addr, l.clone()).is_some());
        if dup {
            return Err(io::Error::from(io::ErrorKind::AddrInUse));
        }
        Ok(l)
    }
    pub fn set_nonblocking(&self, _nb: bool) -> io::Result<()> {
        Ok(())
    }
    /// poll(2) on the listening socket: true if a connection is pending,
    /// false on time-out or interruption.
    pub fn poll_accept(&self, timeout: Duration) -> io::Result<bool> {
        crate::switch();
        if crate::fault(Fault::EintrPoll) {
            return Ok(false);
        }
        if !self.0.q.borrow().is_empty() {
            return Ok(true);
        }
        self.0.wq.wait(deadline_after(Some(timeout)));
        Ok(!self.0.q.borrow().is_empty())
    }
    /// Non-blocking accept.
    pub fn accept(&self) -> io::Result<(TcpStream, SocketAddr)> {
        crate::switch();
        if crate::fault(Fault::EintrAccept) {
            return Err(io::Error::from(io::ErrorKind::Interrupted));
        }
        if !self.0.q.borrow().is_empty() && crate::fault(Fault::AcceptError) {
            // e.g. ECONNABORTED / EMFILE: the pending connection stays queued
            return Err(io::Error::from_raw_os_error(103));
        }
        self.0
            .q
            .borrow_mut()
            .pop_front()
            .ok_or_else(|| io::Error::from(io::ErrorKind::WouldBlock))
    }
}

/// Client side: connects to a simulated listener. `cap_to_client` bounds the
/// octets the server can have in flight towards the client (back-pressure on
/// the server's writes); the client→server direction is unbounded.
pub fn connect(server: SocketAddr, client: SocketAddr, cap_to_client: usize) -> io::Result<TcpStream> {
    crate::switch();
    let (l, id) = NET.with(|n| {
        let mut n = n.borrow_mut();
        n.next_conn += 1;
        (n.listeners.get(&server).or_else(|| n.listeners.get(&wildcard_of(server))).cloned(), n.next_conn)
    });
    let l = l.ok_or_else(|| io::Error::from(io::ErrorKind::ConnectionRefused))?;
    let (c, s) = TcpStream::pair(cap_to_client.max(1), usize::MAX, id);
    l.0.q.borrow_mut().push_back((s, client));
    l.0.wq.wake_all();
    crate::event("tcp_connect", id, 0);
    Ok(c)
}

// --- UDP -------------------------------------------------------------------------------

/// A datagram as seen by a receiving socket.
#[derive(Clone, Debug, PartialEq, Eq)]
pub struct Dgram {
    pub data: Vec<u8>,
    pub src: SocketAddr,
    pub dst: SocketAddr,
    /// network-assigned id, unique per execution (duplicates share the id of the original)
    pub id: u64,
}

struct UdpInner {
    q: RefCell<VecDeque<Dgram>>,
    wq: WaitQ,
    timeout: Cell<Option<Duration>>,
    local: SocketAddr,
    faulty: bool,
}
#[derive(Clone)]
pub struct UdpSocket(Rc<UdpInner>);
unsafe impl Send for UdpSocket {}
unsafe impl Sync for UdpSocket {}

/// What the network did with datagrams, for the oracles.
#[derive(Clone, Debug, Default)]
pub struct UdpLog {
    /// datagrams handed to a receiving socket's queue (after loss/dup/delay)
    pub delivered: Vec<Dgram>,
    /// datagrams returned by `recv`, with the (possibly truncated) length
    pub received: Vec<(Dgram, usize)>,
    /// datagrams submitted with `send`/`send_datagram`
    pub sent: Vec<Dgram>,
}

#[derive(Default)]
struct Net {
    listeners: BTreeMap<SocketAddr, TcpListener>,
    udp: BTreeMap<SocketAddr, UdpSocket>,
    next_conn: u64,
    next_dgram: u64,
    log: UdpLog,
    /// maximum in-network delay of a datagram when `udp_delay` fires
    max_udp_delay_ns: u64,
}
thread_local! { static NET: RefCell<Net> = RefCell::new(Net::default()); }
pub(crate) fn reset() {
    NET.with(|n| {
        let old = std::mem::take(&mut *n.borrow_mut());
        // sockets of an aborted execution may still be referenced by leaked stacks
        std::mem::forget(old);
        n.borrow_mut().max_udp_delay_ns = 200_000_000;
    });
}
/// End of a *completed* execution: the simulated kernel state is dropped for real (inside the
/// live execution, so wake-ups triggered by closing sockets are harmless). Only executions that
/// were aborted leak their state (see `reset`).
pub(crate) fn clear_after_finish() {
    let old = NET.with(|n| std::mem::take(&mut *n.borrow_mut()));
    drop(old);
}
pub fn set_max_udp_delay(d: Duration) {
    NET.with(|n| n.borrow_mut().max_udp_delay_ns = d.as_nanos() as u64);
}
pub fn take_udp_log() -> UdpLog {
    NET.with(|n| std::mem::take(&mut n.borrow_mut().log))
}

impl UdpSocket {
    fn bind_impl(addr: SocketAddr, faulty: bool) -> io::Result<Self> {
        let s = UdpSocket(Rc::new(UdpInner {
            q: RefCell::new(VecDeque::new()),
            wq: WaitQ::default(),
            timeout: Cell::new(None),
            local: addr,
            faulty,
        }));
        let dup = NET.with(|n| n.borrow_mut().udp.insert(addr, s.clone()).is_some());
        if dup {
            return Err(io::Error::from(io::ErrorKind::AddrInUse));
        }
        Ok(s)
    }
    /// Server-side bind (faults enabled): this is what quandary calls.
    pub fn bind(addr: SocketAddr) -> io::Result<Self> {
        Self::bind_impl(addr, true)
    }
    /// Harness-side bind: no faults are injected into this socket's calls.
    pub fn bind_client(addr: SocketAddr) -> io::Result<Self> {
        Self::bind_impl(addr, false)
    }
    pub fn local_addr(&self) -> SocketAddr {
        self.0.local
    }
    pub fn set_read_timeout(&self, t: Option<Duration>) -> io::Result<()> {
        if t == Some(Duration::ZERO) {
            return Err(io::Error::new(io::ErrorKind::InvalidInput, "cannot set a 0 duration timeout"));
        }
        self.0.timeout.set(t);
        Ok(())
    }
    pub fn pending(&self) -> usize {
        self.0.q.borrow().len()
    }
    pub fn recv(&mut self, buf: &mut [u8]) -> io::Result<(usize, SocketAddr, IpAddr)> {
        crate::switch();
        if self.0.faulty && crate::fault(Fault::EintrUdpRecv) {
            return Err(io::Error::from(io::ErrorKind::Interrupted));
        }
        if self.0.faulty && crate::fault(Fault::UdpRecvError) {
            // e.g. ENOMEM / a pending ICMP error surfaced by recvmsg: nothing is consumed
            return Err(io::Error::from_raw_os_error(12));
        }
        let deadline = deadline_after(self.0.timeout.get());
        loop {
            let d = self.0.q.borrow_mut().pop_front();
            if let Some(d) = d {
                let n = d.data.len().min(buf.len());
                if n < d.data.len() {
                    crate::count_fault(Fault::UdpTruncate);
                }
                buf[..n].copy_from_slice(&d.data[..n]);
                let (src, dst) = (d.src, d.dst.ip());
                crate::event("udp_recv", d.id, n as u64);
                NET.with(|net| net.borrow_mut().log.received.push((d, n)));
                return Ok((n, src, dst));
            }
            if let Some(dl) = deadline {
                if now_ns() >= dl {
                    return Err(timeout_error());
                }
            }
            self.0.wq.wait(deadline);
        }
    }
    pub fn send(&mut self, buf: &[u8], dest: SocketAddr, src: IpAddr) -> io::Result<usize> {
        crate::switch();
        if self.0.faulty && crate::fault(Fault::EintrUdpSend) {
            return Err(io::Error::from(io::ErrorKind::Interrupted));
        }
        if self.0.faulty && crate::fault(Fault::UdpSendError) {
            // e.g. ENOBUFS / EPERM from a firewall: the datagram is not sent
            return Err(io::Error::from_raw_os_error(105));
        }
        transmit(SocketAddr::new(src, self.0.local.port()), dest, buf);
        Ok(buf.len())
    }
}

/// Harness-side send: puts a datagram on the simulated network.
pub fn send_datagram(from: SocketAddr, to: SocketAddr, data: &[u8]) -> u64 {
    crate::switch();
    transmit(from, to, data)
}

fn transmit(from: SocketAddr, to: SocketAddr, data: &[u8]) -> u64 {
    let id = NET.with(|n| {
        let mut n = n.borrow_mut();
        n.next_dgram += 1;
        let id = n.next_dgram;
        n.log.sent.push(Dgram { data: data.to_vec(), src: from, dst: to, id });
        id
    });
    crate::event("udp_send", id, data.len() as u64);
    if crate::fault(Fault::UdpLoss) {
        return id;
    }
    let copies = if crate::fault(Fault::UdpDup) { 2 } else { 1 };
    for _ in 0..copies {
        let d = Dgram { data: data.to_vec(), src: from, dst: to, id };
        if crate::fault(Fault::UdpDelay) {
            let max = NET.with(|n| n.borrow().max_udp_delay_ns).max(1);
            let delay = 1 + crate::rng_below(max);
            add_timer(now_ns() + delay, Box::new(move || enqueue(d)));
        } else {
            enqueue(d);
        }
    }
    id
}

/// The unspecified ("any") address of the same family and port.
pub(crate) fn wildcard_of(a: SocketAddr) -> SocketAddr {
    match a {
        SocketAddr::V4(_) => SocketAddr::new(IpAddr::V4(std::net::Ipv4Addr::UNSPECIFIED), a.port()),
        SocketAddr::V6(_) => SocketAddr::new(IpAddr::V6(std::net::Ipv6Addr::UNSPECIFIED), a.port()),
    }
}

fn enqueue(d: Dgram) {
    let sock = NET.with(|n| {
        let n = n.borrow();
        n.udp.get(&d.dst).or_else(|| n.udp.get(&wildcard_of(d.dst))).cloned()
    });
    let Some(sock) = sock else { return };
    NET.with(|n| n.borrow_mut().log.delivered.push(d.clone()));
    let mut q = sock.0.q.borrow_mut();
    if !q.is_empty() && crate::fault(Fault::UdpReorder) {
        let pos = crate::rng_below(q.len() as u64) as usize;
        q.insert(pos, d);
    } else {
        q.push_back(d);
    }
    drop(q);
    sock.0.wq.wake_all();
}
