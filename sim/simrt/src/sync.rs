//! `Mutex`, `Condvar` (with real timeouts) and `RwLock` for simulated threads.
//!
//! `Mutex` wraps shuttle's (every lock and unlock is a scheduling point). The
//! `Condvar` is written here against shuttle-engine's block/unblock primitives
//! because shuttle's own `wait_timeout` never times out. Semantics follow
//! std's futex implementation: "register as waiter, release the mutex, block"
//! cannot be separated by a notifier; a waiter removed by the clock task
//! returns `timed_out() == true` and a later notify cannot reach it; spurious
//! wake-ups (legal for std) are the fault kind `spurious_wakeup`.
use crate::{add_timer, block_me, cancel_timer, me, now_ns, unblock, Fault};
use shuttle_engine::runtime::task::TaskId;
use shuttle_engine::runtime::thread as rt;
use std::cell::{Cell, RefCell};
use std::rc::Rc;
use std::sync::{LockResult, PoisonError};
use std::time::Duration;

pub use shuttle::sync::{RwLock, RwLockReadGuard, RwLockWriteGuard};
pub use std::sync::Arc;

/// Poisoning is tracked here, per simulated task: the std mutex inside shuttle's `Mutex` asks
/// `std::thread::panicking()`, which is a property of the OS thread all tasks share, and would
/// poison every mutex released by *any* task while a crashed task's unwind is in flight.
pub struct Mutex<T: ?Sized> {
    poisoned: Cell<bool>,
    inner: shuttle::sync::Mutex<T>,
}
// Safety: simulated threads are coroutines on one OS thread.
unsafe impl<T: ?Sized + Send> Sync for Mutex<T> {}
pub struct MutexGuard<'a, T: ?Sized> {
    inner: Option<shuttle::sync::MutexGuard<'a, T>>,
    mutex: &'a Mutex<T>,
    panicking_at_lock: bool,
}
impl<T> Mutex<T> {
    pub fn new(t: T) -> Self {
        Mutex { poisoned: Cell::new(false), inner: shuttle::sync::Mutex::new(t) }
    }
    pub fn into_inner(self) -> LockResult<T> {
        let poisoned = self.poisoned.get();
        let v = match self.inner.into_inner() {
            Ok(v) => v,
            Err(e) => e.into_inner(),
        };
        if poisoned {
            Err(PoisonError::new(v))
        } else {
            Ok(v)
        }
    }
}
impl<T: ?Sized> Mutex<T> {
    pub fn lock(&self) -> LockResult<MutexGuard<'_, T>> {
        crate::check_abort();
        let g = match self.inner.lock() {
            Ok(g) => g,
            Err(e) => e.into_inner(),
        };
        let guard = MutexGuard { inner: Some(g), mutex: self, panicking_at_lock: crate::thread::panicking() };
        if self.poisoned.get() {
            Err(PoisonError::new(guard))
        } else {
            Ok(guard)
        }
    }
    pub fn is_poisoned(&self) -> bool {
        self.poisoned.get()
    }
    pub fn get_mut(&mut self) -> LockResult<&mut T> {
        let poisoned = self.poisoned.get();
        let v = match self.inner.get_mut() {
            Ok(v) => v,
            Err(e) => e.into_inner(),
        };
        if poisoned {
            Err(PoisonError::new(v))
        } else {
            Ok(v)
        }
    }
}
impl<T: ?Sized> Drop for MutexGuard<'_, T> {
    fn drop(&mut self) {
        // as std: a guard dropped by an unwinding thread that was not unwinding when it locked
        if !self.panicking_at_lock && crate::thread::panicking() {
            self.mutex.poisoned.set(true);
            crate::probe("mutex_poisoned");
        }
    }
}
impl<T: Default> Default for Mutex<T> {
    fn default() -> Self {
        Mutex::new(T::default())
    }
}
impl<T: ?Sized + std::fmt::Debug> std::fmt::Debug for Mutex<T> {
    fn fmt(&self, f: &mut std::fmt::Formatter<'_>) -> std::fmt::Result {
        self.inner.fmt(f)
    }
}
impl<T: ?Sized> std::ops::Deref for MutexGuard<'_, T> {
    type Target = T;
    fn deref(&self) -> &T {
        self.inner.as_ref().unwrap()
    }
}
impl<T: ?Sized> std::ops::DerefMut for MutexGuard<'_, T> {
    fn deref_mut(&mut self) -> &mut T {
        self.inner.as_mut().unwrap()
    }
}

#[derive(Clone, Copy, PartialEq)]
enum W {
    Waiting,
    Notified,
    TimedOut,
}
struct Waiter {
    task: TaskId,
    st: Cell<W>,
}
pub struct Condvar {
    waiters: Rc<RefCell<Vec<Rc<Waiter>>>>,
}
// Safety: simulated threads are coroutines on one OS thread.
unsafe impl Send for Condvar {}
unsafe impl Sync for Condvar {}

#[derive(Debug, Clone, Copy, PartialEq, Eq)]
pub struct WaitTimeoutResult(bool);
impl WaitTimeoutResult {
    pub fn timed_out(&self) -> bool {
        self.0
    }
}
impl Default for Condvar {
    fn default() -> Self {
        Self::new()
    }
}
impl std::fmt::Debug for Condvar {
    fn fmt(&self, f: &mut std::fmt::Formatter<'_>) -> std::fmt::Result {
        f.write_str("Condvar")
    }
}
impl Condvar {
    pub fn new() -> Self {
        Condvar { waiters: Rc::new(RefCell::new(Vec::new())) }
    }
    fn wait_inner<'a, T>(&self, mut guard: MutexGuard<'a, T>, dur: Option<Duration>) -> (MutexGuard<'a, T>, bool) {
        let mutex = guard.mutex;
        if crate::fault(Fault::SpuriousWakeup) {
            // Legal for std: return without notification and without time-out.
            drop(guard.inner.take());
            guard.panicking_at_lock = true; // the empty shell must not take part in poisoning
            let g = match mutex.lock() {
                Ok(g) => g,
                Err(e) => e.into_inner(),
            };
            return (g, false);
        }
        let w = Rc::new(Waiter { task: me(), st: Cell::new(W::Waiting) });
        self.waiters.borrow_mut().push(w.clone());
        let timer = dur.map(|d| {
            let deadline = now_ns().saturating_add(u64::try_from(d.as_nanos()).unwrap_or(u64::MAX));
            let (w2, list) = (w.clone(), self.waiters.clone());
            add_timer(
                deadline,
                Box::new(move || {
                    if w2.st.get() == W::Waiting {
                        w2.st.set(W::TimedOut);
                        list.borrow_mut().retain(|x| !Rc::ptr_eq(x, &w2));
                        unblock(w2.task);
                    }
                }),
            )
        });
        // Releasing the mutex is a scheduling point; we are already registered.
        drop(guard.inner.take());
        guard.panicking_at_lock = true; // the empty shell must not take part in poisoning
        while w.st.get() == W::Waiting {
            block_me();
        }
        if let (W::Notified, Some(t)) = (w.st.get(), timer) {
            cancel_timer(t);
        }
        let timed_out = w.st.get() == W::TimedOut;
        if timed_out {
            crate::probe("condvar_wait_timed_out");
        }
        let g = match mutex.lock() {
            Ok(g) => g,
            Err(e) => e.into_inner(),
        };
        (g, timed_out)
    }
    pub fn wait<'a, T>(&self, g: MutexGuard<'a, T>) -> LockResult<MutexGuard<'a, T>> {
        Ok(self.wait_inner(g, None).0)
    }
    pub fn wait_while<'a, T, F: FnMut(&mut T) -> bool>(
        &self,
        mut g: MutexGuard<'a, T>,
        mut c: F,
    ) -> LockResult<MutexGuard<'a, T>> {
        while c(&mut *g) {
            g = self.wait_inner(g, None).0;
        }
        Ok(g)
    }
    pub fn wait_timeout<'a, T>(
        &self,
        g: MutexGuard<'a, T>,
        d: Duration,
    ) -> LockResult<(MutexGuard<'a, T>, WaitTimeoutResult)> {
        let (g, t) = self.wait_inner(g, Some(d));
        Ok((g, WaitTimeoutResult(t)))
    }
    pub fn wait_timeout_while<'a, T, F: FnMut(&mut T) -> bool>(
        &self,
        mut g: MutexGuard<'a, T>,
        d: Duration,
        mut c: F,
    ) -> LockResult<(MutexGuard<'a, T>, WaitTimeoutResult)> {
        let start = now_ns();
        let total = u64::try_from(d.as_nanos()).unwrap_or(u64::MAX);
        loop {
            if !c(&mut *g) {
                return Ok((g, WaitTimeoutResult(false)));
            }
            let el = now_ns() - start;
            if el >= total {
                return Ok((g, WaitTimeoutResult(true)));
            }
            g = self.wait_inner(g, Some(Duration::from_nanos(total - el))).0;
        }
    }
    pub fn notify_one(&self) {
        crate::check_abort();
        rt::switch();
        let victim = {
            let mut l = self.waiters.borrow_mut();
            if l.is_empty() {
                None
            } else {
                let i = if l.len() == 1 { 0 } else { crate::rng_below(l.len() as u64) as usize };
                Some(l.remove(i))
            }
        };
        if let Some(w) = victim {
            w.st.set(W::Notified);
            unblock(w.task);
        }
    }
    pub fn notify_all(&self) {
        crate::check_abort();
        rt::switch();
        let all: Vec<_> = self.waiters.borrow_mut().drain(..).collect();
        for w in all {
            w.st.set(W::Notified);
            unblock(w.task);
        }
    }
}
