//! A byte stream with injectable read-side faults, for code that is generic
//! over `io::Read` (the zone-file parser).
use std::io;

/// What one `read` call does.
#[derive(Clone, Copy, Debug, PartialEq, Eq)]
pub enum ReadFault {
    /// return `Interrupted` (EINTR), consuming nothing
    Eintr,
    /// return an I/O error (EIO), consuming nothing; sticky
    Eio,
}

/// Reader over a byte slice. `chunk(i)` gives the maximum size of the i-th
/// successful read; faults are scheduled by call index or by stream offset.
pub struct FaultyReader {
    pub data: Vec<u8>,
    pub pos: usize,
    /// cyclic list of maximum read sizes (empty = unlimited)
    pub chunks: Vec<usize>,
    /// EIO once `pos >= eio_at`
    pub eio_at: Option<usize>,
    /// call indices (0-based, counting every call) that return EINTR
    pub eintr_calls: Vec<usize>,
    /// from this call on, *every* call returns EINTR (a stuck signal storm)
    pub eintr_forever_from: Option<usize>,
    pub calls: usize,
    pub ok_reads: usize,
    pub eintr_returned: usize,
    pub eio_returned: usize,
    /// consecutive EINTRs returned without an intervening successful read
    pub eintr_streak: usize,
    pub max_eintr_streak: usize,
}
impl FaultyReader {
    pub fn new(data: Vec<u8>) -> Self {
        FaultyReader {
            data,
            pos: 0,
            chunks: vec![],
            eio_at: None,
            eintr_calls: vec![],
            eintr_forever_from: None,
            calls: 0,
            ok_reads: 0,
            eintr_returned: 0,
            eio_returned: 0,
            eintr_streak: 0,
            max_eintr_streak: 0,
        }
    }
}
impl io::Read for FaultyReader {
    fn read(&mut self, buf: &mut [u8]) -> io::Result<usize> {
        let call = self.calls;
        self.calls += 1;
        if self.eintr_calls.contains(&call) || self.eintr_forever_from.map(|f| call >= f).unwrap_or(false) {
            self.eintr_returned += 1;
            self.eintr_streak += 1;
            self.max_eintr_streak = self.max_eintr_streak.max(self.eintr_streak);
            return Err(io::Error::from(io::ErrorKind::Interrupted));
        }
        self.eintr_streak = 0;
        let mut end = self.data.len();
        if let Some(k) = self.eio_at {
            if self.pos >= k {
                self.eio_returned += 1;
                return Err(io::Error::from_raw_os_error(5));
            }
            end = end.min(k);
        }
        let mut n = buf.len().min(end - self.pos);
        if !self.chunks.is_empty() {
            n = n.min(self.chunks[self.ok_reads % self.chunks.len()].max(1));
        }
        buf[..n].copy_from_slice(&self.data[self.pos..self.pos + n]);
        self.pos += n;
        self.ok_reads += 1;
        Ok(n)
    }
}
