//! Simulated `Instant` and `SystemTime`.
use std::time::Duration;

/// Monotonic simulated instant (nanoseconds).
#[derive(Clone, Copy, PartialEq, Eq, PartialOrd, Ord, Debug, Hash)]
pub struct Instant(pub u64);

impl Instant {
    pub fn now() -> Self {
        Instant(crate::now_ns())
    }
    pub fn duration_since(&self, e: Instant) -> Duration {
        Duration::from_nanos(self.0.saturating_sub(e.0))
    }
    pub fn saturating_duration_since(&self, e: Instant) -> Duration {
        self.duration_since(e)
    }
    pub fn checked_duration_since(&self, e: Instant) -> Option<Duration> {
        self.0.checked_sub(e.0).map(Duration::from_nanos)
    }
    pub fn checked_sub(&self, d: Duration) -> Option<Instant> {
        u64::try_from(d.as_nanos())
            .ok()
            .and_then(|n| self.0.checked_sub(n))
            .map(Instant)
    }
    pub fn checked_add(&self, d: Duration) -> Option<Instant> {
        u64::try_from(d.as_nanos())
            .ok()
            .and_then(|n| self.0.checked_add(n))
            .map(Instant)
    }
    pub fn elapsed(&self) -> Duration {
        Instant::now().duration_since(*self)
    }
}
impl std::ops::Add<Duration> for Instant {
    type Output = Instant;
    fn add(self, d: Duration) -> Instant {
        self.checked_add(d)
            .expect("overflow when adding duration to instant")
    }
}
impl std::ops::AddAssign<Duration> for Instant {
    fn add_assign(&mut self, d: Duration) {
        *self = *self + d;
    }
}
impl std::ops::Sub<Duration> for Instant {
    type Output = Instant;
    fn sub(self, d: Duration) -> Instant {
        self.checked_sub(d)
            .expect("overflow when subtracting duration from instant")
    }
}
impl std::ops::SubAssign<Duration> for Instant {
    fn sub_assign(&mut self, d: Duration) {
        *self = *self - d;
    }
}
impl std::ops::Sub<Instant> for Instant {
    type Output = Duration;
    fn sub(self, o: Instant) -> Duration {
        self.duration_since(o)
    }
}

/// Namespace standing in for `std::time::SystemTime`: `now()` yields a *std*
/// `SystemTime` computed from the simulated wall clock, so every existing
/// conversion in quandary keeps working unchanged.
pub struct SystemTime;
impl SystemTime {
    pub const UNIX_EPOCH: std::time::SystemTime = std::time::SystemTime::UNIX_EPOCH;
    pub fn now() -> std::time::SystemTime {
        wall_now()
    }
}

/// Simulated wall clock = epoch + base + simulated elapsed + injected offset.
pub fn wall_now() -> std::time::SystemTime {
    let now = crate::now_ns();
    let off = crate::wall_offset_s();
    let base = std::time::SystemTime::UNIX_EPOCH
        + Duration::from_secs(crate::WALL_BASE_S)
        + Duration::from_nanos(now - crate::MONO_BASE_NS);
    if off >= 0 {
        base + Duration::from_secs(off as u64)
    } else {
        base - Duration::from_secs((-off) as u64)
    }
}
/// Seconds since the epoch on the simulated wall clock.
pub fn wall_secs() -> u64 {
    wall_now()
        .duration_since(std::time::SystemTime::UNIX_EPOCH)
        .map(|d| d.as_secs())
        .unwrap_or(0)
}
