//! Simulated async sockets (engine E2: paused, seeded current-thread Tokio
//! runtime). TCP streams are `tokio::io::DuplexStream`s wrapped so that faults
//! (short reads/writes, spurious `Pending`) can be injected on the server side;
//! UDP sockets are channels with loss/duplication/delay/reordering applied by
//! the simulated network.
use crate::Fault;
use std::cell::RefCell;
use std::collections::BTreeMap;
use std::io;
use std::net::{IpAddr, SocketAddr};
use std::pin::Pin;
use std::sync::Arc;
use std::task::{Context, Poll};
use tokio::io::{AsyncRead, AsyncWrite, DuplexStream, ReadBuf};
use tokio::sync::mpsc;

pub use crate::net::{Dgram, UdpLog};

pub struct TcpStream {
    inner: DuplexStream,
    faulty: bool,
}
impl AsyncRead for TcpStream {
    fn poll_read(mut self: Pin<&mut Self>, cx: &mut Context<'_>, buf: &mut ReadBuf<'_>) -> Poll<io::Result<()>> {
        if self.faulty && cancelled() {
            crate::probe("tokio_server_io_after_shutdown_returned");
            LATE_IO.with(|l| l.set(l.get() + 1));
            return Poll::Ready(Err(io::Error::from(io::ErrorKind::ConnectionAborted)));
        }
        if self.faulty && crate::fault(Fault::SpuriousPending) {
            cx.waker().wake_by_ref();
            return Poll::Pending;
        }
        if self.faulty && buf.remaining() > 1 && crate::fault(Fault::TcpShortRead) {
            let n = 1 + crate::rng_below(buf.remaining().min(64) as u64) as usize;
            let mut sub = buf.take(n);
            let r = Pin::new(&mut self.inner).poll_read(cx, &mut sub);
            let filled = sub.filled().len();
            // `take` shares the underlying buffer; account for what was filled
            unsafe { buf.assume_init(filled) };
            buf.advance(filled);
            return r;
        }
        Pin::new(&mut self.inner).poll_read(cx, buf)
    }
}
impl AsyncWrite for TcpStream {
    fn poll_write(mut self: Pin<&mut Self>, cx: &mut Context<'_>, data: &[u8]) -> Poll<io::Result<usize>> {
        if self.faulty && cancelled() {
            crate::probe("tokio_server_io_after_shutdown_returned");
            LATE_IO.with(|l| l.set(l.get() + 1));
            return Poll::Ready(Err(io::Error::from(io::ErrorKind::ConnectionAborted)));
        }
        if self.faulty && crate::fault(Fault::SpuriousPending) {
            cx.waker().wake_by_ref();
            return Poll::Pending;
        }
        let mut d = data;
        if self.faulty && data.len() > 1 && crate::fault(Fault::TcpShortWrite) {
            d = &data[..1 + crate::rng_below(data.len() as u64 - 1) as usize];
        }
        Pin::new(&mut self.inner).poll_write(cx, d)
    }
    fn poll_flush(mut self: Pin<&mut Self>, cx: &mut Context<'_>) -> Poll<io::Result<()>> {
        Pin::new(&mut self.inner).poll_flush(cx)
    }
    fn poll_shutdown(mut self: Pin<&mut Self>, cx: &mut Context<'_>) -> Poll<io::Result<()>> {
        Pin::new(&mut self.inner).poll_shutdown(cx)
    }
}

pub struct TcpListener {
    rx: tokio::sync::Mutex<mpsc::UnboundedReceiver<(TcpStream, SocketAddr)>>,
}
#[derive(Clone)]
pub struct AsyncUdpSocket {
    rx: Arc<std::sync::Mutex<mpsc::UnboundedReceiver<Dgram>>>,
    local: SocketAddr,
    faulty: bool,
}
#[derive(Default)]
struct Net {
    listeners: BTreeMap<SocketAddr, mpsc::UnboundedSender<(TcpStream, SocketAddr)>>,
    udp: BTreeMap<SocketAddr, mpsc::UnboundedSender<Dgram>>,
    next_dgram: u64,
    log: UdpLog,
    max_udp_delay_ns: u64,
}
thread_local! {
    static NET: RefCell<Net> = RefCell::new(Net::default());
    /// Set by the harness once `TokioShutdownController::shut_down` has returned: the daemon
    /// drops the runtime at that point, which cancels every task still alive. Server-side
    /// sockets emulate the cancellation: any later use fails (and closes the connection), so a
    /// task that outlived the "graceful" shutdown shows up as a torn or missing response.
    static RUNTIME_DROPPED: std::cell::Cell<bool> = const { std::cell::Cell::new(false) };
    static LATE_IO: std::cell::Cell<u64> = const { std::cell::Cell::new(0) };
}
/// Server-side socket operations attempted after `set_runtime_dropped` in this execution.
pub fn late_io() -> u64 {
    LATE_IO.with(|l| l.get())
}
pub fn set_runtime_dropped() {
    RUNTIME_DROPPED.with(|r| r.set(true));
}
fn cancelled() -> bool {
    RUNTIME_DROPPED.with(|r| r.get())
}
pub(crate) fn reset() {
    NET.with(|n| {
        let old = std::mem::take(&mut *n.borrow_mut());
        std::mem::forget(old);
        n.borrow_mut().max_udp_delay_ns = 200_000_000;
    });
    RUNTIME_DROPPED.with(|r| r.set(false));
    LATE_IO.with(|l| l.set(0));
}
pub(crate) fn clear_after_finish() {
    let old = NET.with(|n| std::mem::take(&mut *n.borrow_mut()));
    drop(old);
}
pub fn take_udp_log() -> UdpLog {
    NET.with(|n| std::mem::take(&mut n.borrow_mut().log))
}

impl TcpListener {
    pub async fn bind(addr: SocketAddr) -> io::Result<Self> {
        let (tx, rx) = mpsc::unbounded_channel();
        NET.with(|n| n.borrow_mut().listeners.insert(addr, tx));
        Ok(TcpListener { rx: tokio::sync::Mutex::new(rx) })
    }
    pub async fn accept(&self) -> io::Result<(TcpStream, SocketAddr)> {
        if crate::fault(Fault::AcceptError) {
            return Err(io::Error::from_raw_os_error(103));
        }
        self.rx
            .lock()
            .await
            .recv()
            .await
            .ok_or_else(|| io::Error::from(io::ErrorKind::ConnectionAborted))
    }
}

/// Client side: connect; `cap` is the per-direction buffer (back-pressure).
pub fn connect(server: SocketAddr, client: SocketAddr, cap: usize) -> io::Result<DuplexStream> {
    let tx = NET
        .with(|n| {
            let n = n.borrow();
            n.listeners.get(&server).or_else(|| n.listeners.get(&crate::net::wildcard_of(server))).cloned()
        })
        .ok_or_else(|| io::Error::from(io::ErrorKind::ConnectionRefused))?;
    let (c, s) = tokio::io::duplex(cap.max(1));
    tx.send((TcpStream { inner: s, faulty: true }, client))
        .map_err(|_| io::Error::from(io::ErrorKind::ConnectionRefused))?;
    Ok(c)
}

impl AsyncUdpSocket {
    fn bind_impl(addr: SocketAddr, faulty: bool) -> io::Result<Self> {
        let (tx, rx) = mpsc::unbounded_channel();
        NET.with(|n| n.borrow_mut().udp.insert(addr, tx));
        Ok(AsyncUdpSocket { rx: Arc::new(std::sync::Mutex::new(rx)), local: addr, faulty })
    }
    pub fn bind(addr: SocketAddr) -> io::Result<Self> {
        Self::bind_impl(addr, true)
    }
    pub fn bind_client(addr: SocketAddr) -> io::Result<Self> {
        Self::bind_impl(addr, false)
    }
    pub fn poll_recv(&mut self, cx: &mut Context<'_>, buf: &mut [u8]) -> Poll<io::Result<(usize, SocketAddr, IpAddr)>> {
        if self.faulty && crate::fault(Fault::SpuriousPending) {
            cx.waker().wake_by_ref();
            return Poll::Pending;
        }
        if self.faulty && crate::fault(Fault::UdpRecvError) {
            return Poll::Ready(Err(io::Error::from_raw_os_error(12)));
        }
        match self.rx.lock().unwrap().poll_recv(cx) {
            Poll::Ready(Some(d)) => {
                let n = d.data.len().min(buf.len());
                if n < d.data.len() {
                    crate::count_fault(Fault::UdpTruncate);
                }
                buf[..n].copy_from_slice(&d.data[..n]);
                let (src, dst) = (d.src, d.dst.ip());
                NET.with(|net| net.borrow_mut().log.received.push((d, n)));
                Poll::Ready(Ok((n, src, dst)))
            }
            Poll::Ready(None) => Poll::Ready(Err(io::Error::from(io::ErrorKind::BrokenPipe))),
            Poll::Pending => Poll::Pending,
        }
    }
    pub fn poll_send(&mut self, cx: &mut Context<'_>, buf: &[u8], dest: SocketAddr, src: IpAddr) -> Poll<io::Result<usize>> {
        if self.faulty && cancelled() {
            crate::probe("tokio_server_io_after_shutdown_returned");
            LATE_IO.with(|l| l.set(l.get() + 1));
            return Poll::Ready(Err(io::Error::from(io::ErrorKind::ConnectionAborted)));
        }
        if self.faulty && crate::fault(Fault::SpuriousPending) {
            cx.waker().wake_by_ref();
            return Poll::Pending;
        }
        if self.faulty && crate::fault(Fault::UdpSendError) {
            return Poll::Ready(Err(io::Error::from_raw_os_error(105)));
        }
        transmit(SocketAddr::new(src, self.local.port()), dest, buf);
        Poll::Ready(Ok(buf.len()))
    }
    /// Harness-side receive.
    pub async fn recv_dgram(&mut self) -> Option<Dgram> {
        std::future::poll_fn(|cx| self.rx.lock().unwrap().poll_recv(cx)).await
    }
}

pub fn send_datagram(from: SocketAddr, to: SocketAddr, data: &[u8]) -> u64 {
    transmit(from, to, data)
}

fn transmit(from: SocketAddr, to: SocketAddr, data: &[u8]) -> u64 {
    let id = NET.with(|n| {
        let mut n = n.borrow_mut();
        n.next_dgram += 1;
        let id = n.next_dgram;
        n.log.sent.push(Dgram { data: data.to_vec(), src: from, dst: to, id });
        id
    });
    if crate::fault(Fault::UdpLoss) {
        return id;
    }
    let copies = if crate::fault(Fault::UdpDup) { 2 } else { 1 };
    for _ in 0..copies {
        let d = Dgram { data: data.to_vec(), src: from, dst: to, id };
        if crate::fault(Fault::UdpDelay) {
            let max = NET.with(|n| n.borrow().max_udp_delay_ns).max(1);
            let delay = 1 + crate::rng_below(max);
            tokio::spawn(async move {
                tokio::time::sleep(std::time::Duration::from_nanos(delay)).await;
                enqueue(d);
            });
        } else {
            enqueue(d);
        }
    }
    id
}
fn enqueue(d: Dgram) {
    let tx = NET.with(|n| {
        let n = n.borrow();
        n.udp.get(&d.dst).or_else(|| n.udp.get(&crate::net::wildcard_of(d.dst))).cloned()
    });
    if let Some(tx) = tx {
        NET.with(|n| n.borrow_mut().log.delivered.push(d.clone()));
        let _ = tx.send(d);
    }
}
