//! `thread_rng()` backed by the execution's recorded random stream.
pub use ::rand::{Rng, RngCore};

/// Generator whose every value is a recorded scheduler choice.
pub struct SimRng;
impl RngCore for SimRng {
    fn next_u32(&mut self) -> u32 {
        crate::rng_u64() as u32
    }
    fn next_u64(&mut self) -> u64 {
        crate::rng_u64()
    }
    fn fill_bytes(&mut self, dest: &mut [u8]) {
        for c in dest.chunks_mut(8) {
            let v = crate::rng_u64().to_le_bytes();
            c.copy_from_slice(&v[..c.len()]);
        }
    }
    fn try_fill_bytes(&mut self, dest: &mut [u8]) -> Result<(), ::rand::Error> {
        self.fill_bytes(dest);
        Ok(())
    }
}
pub fn thread_rng() -> SimRng {
    SimRng
}
