//! The scheduler that owns every interleaving decision.
//!
//! One `SimScheduler` lives per OS worker thread. Before each execution the
//! harness hands it an [`ExecPlan`] (seed, strategy, clock policy, step bound);
//! during the execution it records every decision (task choice or random value)
//! so that the execution can be replayed, shrunk and replayed again from the
//! record alone.

use shuttle_engine::scheduler::{Schedule, Scheduler, Task, TaskId};
use std::cell::RefCell;

/// One recorded decision.
#[derive(Clone, Copy, Debug, PartialEq, Eq)]
pub enum Step {
    /// task chosen at a scheduling point
    T(u32),
    /// value handed to the execution's random stream
    R(u64),
}

/// How simulated time relates to computation.
#[derive(Clone, Copy, Debug, PartialEq, Eq)]
pub enum ClockPolicy {
    /// Discrete-event time: timers fire only when nothing else can run.
    Des,
    /// With this probability (percent) per decision the clock task runs although
    /// other tasks are runnable: a timeout may fire between any two
    /// synchronisation operations of any other thread.
    Eager(u8),
}

#[derive(Clone, Debug)]
pub enum Strategy {
    /// uniformly random runnable task
    Random,
    /// PCT-style priorities with `depth - 1` priority change points among the
    /// first `est_len` decisions
    Pct { depth: u32, est_len: u32 },
    /// follow `steps`; afterwards (or on divergence) continue greedily
    Replay { steps: Vec<Step> },
}

#[derive(Clone, Debug)]
pub struct ExecPlan {
    pub seed: u64,
    pub strategy: Strategy,
    pub clock: ClockPolicy,
    pub max_steps: usize,
}

/// What the scheduler observed during the last execution.
#[derive(Clone, Debug, Default)]
pub struct ExecRecord {
    pub steps: Vec<Step>,
    pub decisions: usize,
    pub preemptions: usize,
    pub clock_preemptions: usize,
    pub bound_exceeded: bool,
    pub replay_diverged: bool,
    pub max_tasks: usize,
}
impl ExecRecord {
    pub fn hash(&self) -> u64 {
        let mut h = 0xcbf29ce484222325u64;
        for s in &self.steps {
            let v = match s {
                Step::T(t) => *t as u64,
                Step::R(r) => r.rotate_left(17) ^ 0x5555,
            };
            h = (h ^ v).wrapping_mul(0x100000001b3);
            h ^= h >> 29;
        }
        h
    }
}

type PlanSource = Box<dyn FnMut() -> Option<ExecPlan>>;
thread_local! {
    static PLAN_SOURCE: RefCell<Option<PlanSource>> = const { RefCell::new(None) };
    static LAST: RefCell<ExecRecord> = RefCell::new(ExecRecord::default());
    static DECISIONS: std::cell::Cell<usize> = const { std::cell::Cell::new(0) };
}

/// Scheduling decisions taken so far in the execution running on this OS thread.
pub fn decisions_so_far() -> usize {
    DECISIONS.with(|d| d.get())
}

/// Installs the closure that yields the plan of each next execution on this OS
/// thread. It is called between executions, after the previous execution's
/// record has been made available through [`take_record`]; `None` ends the run.
pub fn set_plan_source(f: PlanSource) {
    PLAN_SOURCE.with(|n| *n.borrow_mut() = Some(f));
}
/// Queues exactly one plan.
pub fn set_next_plan(p: ExecPlan) {
    let mut p = Some(p);
    set_plan_source(Box::new(move || p.take()));
}
/// Record of the execution that ran last on this OS thread.
pub fn take_record() -> ExecRecord {
    LAST.with(|l| std::mem::take(&mut *l.borrow_mut()))
}

pub struct SplitMix(pub u64);
impl SplitMix {
    pub fn next(&mut self) -> u64 {
        self.0 = self.0.wrapping_add(0x9E3779B97F4A7C15);
        let mut z = self.0;
        z = (z ^ (z >> 30)).wrapping_mul(0xBF58476D1CE4E5B9);
        z = (z ^ (z >> 27)).wrapping_mul(0x94D049BB133111EB);
        z ^ (z >> 31)
    }
    pub fn below(&mut self, n: u64) -> u64 {
        if n <= 1 {
            0
        } else {
            self.next() % n
        }
    }
}

pub struct SimScheduler {
    plan: Option<ExecPlan>,
    rng: SplitMix,
    /// private coins of the clock policy: never part of the recorded stream
    coin: SplitMix,
    rec: ExecRecord,
    pos: usize,
    // PCT state
    prio: Vec<(u32, u64)>,
    change_points: Vec<usize>,
    low_water: u64,
}

impl Default for SimScheduler {
    fn default() -> Self {
        Self::new()
    }
}

impl SimScheduler {
    pub fn new() -> Self {
        SimScheduler {
            plan: None,
            rng: SplitMix(0),
            coin: SplitMix(0),
            rec: ExecRecord::default(),
            pos: 0,
            prio: Vec::new(),
            change_points: Vec::new(),
            low_water: 0,
        }
    }
    fn flush(&mut self) {
        if self.plan.take().is_some() {
            let rec = std::mem::take(&mut self.rec);
            LAST.with(|l| *l.borrow_mut() = rec);
        }
    }
    fn pct_prio(&mut self, t: u32) -> u64 {
        if let Some(p) = self.prio.iter().find(|p| p.0 == t) {
            return p.1;
        }
        // new task: random priority above every demoted one
        let p = (1u64 << 32) + (self.rng.next() >> 32);
        self.prio.push((t, p));
        p
    }
    fn demote(&mut self, t: u32) {
        self.low_water += 1;
        let v = (1u64 << 32) - self.low_water;
        if let Some(p) = self.prio.iter_mut().find(|p| p.0 == t) {
            p.1 = v;
        } else {
            self.prio.push((t, v));
        }
    }
}

fn tid(t: &Task) -> u32 {
    usize::from(t.id()) as u32
}

impl Scheduler for SimScheduler {
    fn new_execution(&mut self) -> Option<Schedule> {
        self.flush();
        let mut src = PLAN_SOURCE.with(|n| n.borrow_mut().take())?;
        let plan = src();
        PLAN_SOURCE.with(|n| *n.borrow_mut() = Some(src));
        let plan = plan?;
        crate::CLOCK_TASK.with(|c| c.set(None));
        crate::ABORT.with(|a| a.set(false));
        self.rng = SplitMix(plan.seed ^ 0x1234_5678_9abc_def0);
        self.coin = SplitMix(plan.seed.rotate_left(32) ^ 0x0fed_cba9_8765_4321);
        self.pos = 0;
        self.prio.clear();
        self.change_points.clear();
        self.low_water = 0;
        if let Strategy::Pct { depth, est_len } = plan.strategy {
            for _ in 1..depth {
                let cp = self.coin.below(est_len.max(1) as u64) as usize;
                self.change_points.push(cp);
            }
        }
        let seed = plan.seed;
        self.plan = Some(plan);
        Some(Schedule::new(seed))
    }

    fn next_task(&mut self, runnable: &[&Task], current: Option<TaskId>, is_yielding: bool) -> Option<TaskId> {
        let plan = self.plan.as_ref().expect("no plan");
        self.rec.decisions += 1;
        DECISIONS.with(|d| d.set(self.rec.decisions));
        if self.rec.decisions > plan.max_steps {
            // Flag it; the next simrt call of the running task unwinds that task,
            // which ends the execution without force-unwinding the others.
            self.rec.bound_exceeded = true;
            crate::ABORT.with(|a| a.set(true));
            if self.rec.decisions > plan.max_steps + 20_000 {
                return None;
            }
        }
        self.rec.max_tasks = self.rec.max_tasks.max(runnable.len());
        let clock = crate::CLOCK_TASK.with(|c| c.get()).map(|c| c as u32);
        let cur = current.map(|c| usize::from(c) as u32);
        let cur_runnable = cur.map(|c| runnable.iter().any(|t| tid(t) == c)).unwrap_or(false);
        let clock_runnable = clock.map(|c| runnable.iter().any(|t| tid(t) == c)).unwrap_or(false);
        let n_others = runnable.len() - clock_runnable as usize;

        let mut choice: Option<u32> = None;
        let mut replaying = false;
        if let Strategy::Replay { steps } = &plan.strategy {
            if !self.rec.replay_diverged && self.pos < steps.len() {
                match steps[self.pos] {
                    Step::T(t) if runnable.iter().any(|x| tid(x) == t) => {
                        self.pos += 1;
                        choice = Some(t);
                        replaying = true;
                    }
                    _ => self.rec.replay_diverged = true,
                }
            }
            if choice.is_none() {
                // greedy tail: keep running the current task; on block take the
                // lowest non-clock id; the clock only when nothing else can run
                choice = if cur_runnable && !is_yielding && cur != clock {
                    cur
                } else {
                    runnable
                        .iter()
                        .map(|t| tid(t))
                        .filter(|t| Some(*t) != clock && !(is_yielding && Some(*t) == cur))
                        .min()
                        .or_else(|| runnable.iter().map(|t| tid(t)).filter(|t| Some(*t) != clock).min())
                        .or(clock)
                };
            }
        }
        let _ = replaying;
        if choice.is_none() {
            if n_others == 0 {
                choice = clock;
            } else if clock_runnable && matches!(plan.clock, ClockPolicy::Eager(p) if self.coin.below(100) < p as u64) {
                choice = clock;
                self.rec.clock_preemptions += 1;
            } else {
                let strategy = plan.strategy.clone();
                match strategy {
                    Strategy::Random | Strategy::Replay { .. } => {
                        let k = self.rng.below(n_others as u64) as usize;
                        choice = runnable.iter().map(|t| tid(t)).filter(|t| Some(*t) != clock).nth(k);
                    }
                    Strategy::Pct { .. } => {
                        let step = self.rec.decisions - 1;
                        if let Some(c) = cur {
                            if self.change_points.contains(&step) || is_yielding {
                                self.demote(c);
                            }
                        }
                        let mut best: Option<(u64, u32)> = None;
                        for t in runnable.iter().map(|t| tid(t)).filter(|t| Some(*t) != clock) {
                            let p = self.pct_prio(t);
                            if best.map(|b| p > b.0).unwrap_or(true) {
                                best = Some((p, t));
                            }
                        }
                        choice = best.map(|b| b.1);
                    }
                }
            }
        }
        let c = choice.expect("scheduler found no task");
        if cur_runnable && cur != Some(c) {
            self.rec.preemptions += 1;
        }
        self.rec.steps.push(Step::T(c));
        Some(TaskId::from(c as usize))
    }

    fn next_u64(&mut self) -> u64 {
        let plan = self.plan.as_ref().expect("no plan");
        let mut v = None;
        if let Strategy::Replay { steps } = &plan.strategy {
            if !self.rec.replay_diverged && self.pos < steps.len() {
                match steps[self.pos] {
                    Step::R(r) => {
                        self.pos += 1;
                        v = Some(r);
                    }
                    _ => self.rec.replay_diverged = true,
                }
            }
        }
        let v = v.unwrap_or_else(|| self.rng.next());
        self.rec.steps.push(Step::R(v));
        v
    }
}

impl Drop for SimScheduler {
    fn drop(&mut self) {
        self.flush();
    }
}

/// Text form of a schedule: `T3 T1 Rdeadbeef ...` run-length compressed
/// (`T3*5` = task 3 chosen five times in a row).
pub fn encode_steps(steps: &[Step]) -> String {
    let mut out = String::new();
    let mut i = 0;
    while i < steps.len() {
        match steps[i] {
            Step::T(t) => {
                let mut j = i;
                while j < steps.len() && steps[j] == Step::T(t) {
                    j += 1;
                }
                if j - i > 1 {
                    out.push_str(&format!("T{}*{} ", t, j - i));
                } else {
                    out.push_str(&format!("T{} ", t));
                }
                i = j;
            }
            Step::R(r) => {
                out.push_str(&format!("R{:x} ", r));
                i += 1;
            }
        }
    }
    out.trim_end().to_string()
}
pub fn decode_steps(s: &str) -> Result<Vec<Step>, String> {
    let mut v = Vec::new();
    for tok in s.split_whitespace() {
        if let Some(rest) = tok.strip_prefix('T') {
            let (t, n) = match rest.split_once('*') {
                Some((t, n)) => (t, n.parse::<usize>().map_err(|e| e.to_string())?),
                None => (rest, 1),
            };
            let t = t.parse::<u32>().map_err(|e| e.to_string())?;
            for _ in 0..n {
                v.push(Step::T(t));
            }
        } else if let Some(rest) = tok.strip_prefix('R') {
            v.push(Step::R(u64::from_str_radix(rest, 16).map_err(|e| e.to_string())?));
        } else {
            return Err(format!("bad schedule token {tok}"));
        }
    }
    Ok(v)
}
