//! Simulated signal delivery: stands in for `signal_hook::iterator::Signals` in the daemon's
//! main loop. The harness raises signals at points of its choosing; the daemon's main thread
//! blocks in `forever()` like the real iterator does. As with the real iterator, several
//! deliveries of the same signal before the loop gets to them coalesce into one.
use crate::{block_me, me, unblock};
use shuttle_engine::runtime::task::TaskId;
use std::borrow::Borrow;
use std::cell::RefCell;
use std::collections::BTreeSet;
use std::io;

#[derive(Default)]
struct SigState {
    registered: BTreeSet<i32>,
    pending: BTreeSet<i32>,
    /// the task blocked in `forever().next()`, if any
    waiter: Option<TaskId>,
    /// the signal loop is blocked with nothing pending
    idle: bool,
    /// the thread that owns the signal loop has ended (set by the harness wrapper)
    exited: bool,
    idle_waiters: Vec<TaskId>,
    /// signals handed to the loop so far
    delivered: u64,
    /// event stamp of the moment the loop last went idle
    idle_stamp: u64,
    coalesced: u64,
}
thread_local! { static SIG: RefCell<SigState> = RefCell::new(SigState::default()); }

pub(crate) fn reset() {
    SIG.with(|s| *s.borrow_mut() = SigState::default());
}

pub struct Signals(());
// Safety: simulated threads are coroutines on one OS thread.
unsafe impl Send for Signals {}

impl Signals {
    pub fn new<I, S>(signals: I) -> io::Result<Self>
    where
        I: IntoIterator<Item = S>,
        S: Borrow<i32>,
    {
        SIG.with(|s| {
            let mut s = s.borrow_mut();
            for sig in signals {
                s.registered.insert(*sig.borrow());
            }
        });
        Ok(Signals(()))
    }
    pub fn forever(&mut self) -> Forever<'_> {
        Forever(self)
    }
}
pub struct Forever<'a>(#[allow(dead_code)] &'a mut Signals);
impl Iterator for Forever<'_> {
    type Item = i32;
    fn next(&mut self) -> Option<i32> {
        crate::switch();
        loop {
            let got = SIG.with(|s| {
                let mut s = s.borrow_mut();
                let first = s.pending.iter().next().copied();
                if let Some(sig) = first {
                    s.pending.remove(&sig);
                    s.delivered += 1;
                    s.idle = false;
                }
                first
            });
            if let Some(sig) = got {
                crate::event("signal_delivered", sig as u64, 0);
                return Some(sig);
            }
            let wake: Vec<TaskId> = SIG.with(|s| {
                let mut s = s.borrow_mut();
                s.idle = true;
                s.waiter = Some(me());
                s.idle_stamp = crate::stamp();
                s.idle_waiters.drain(..).collect()
            });
            for w in wake {
                unblock(w);
            }
            block_me();
            SIG.with(|s| s.borrow_mut().waiter = None);
        }
    }
}

/// Harness side: delivers `sig` to the process. Returns false if the signal is not registered
/// (the default disposition would apply; the harness does not model that).
pub fn raise(sig: i32) -> bool {
    crate::switch();
    let (ok, w) = SIG.with(|s| {
        let mut s = s.borrow_mut();
        if !s.registered.contains(&sig) {
            return (false, None);
        }
        if !s.pending.insert(sig) {
            s.coalesced += 1;
        }
        s.idle = false;
        (true, s.waiter)
    });
    crate::event("signal_raised", sig as u64, ok as u64);
    if let Some(w) = w {
        unblock(w);
    }
    ok
}

/// Harness side: blocks until the signal loop is idle (blocked with nothing pending) - returns
/// true - or the thread owning it has ended - returns false.
pub fn wait_idle() -> bool {
    loop {
        let (idle, exited) = SIG.with(|s| {
            let s = s.borrow();
            (s.idle && s.pending.is_empty(), s.exited)
        });
        if exited {
            return false;
        }
        if idle {
            return true;
        }
        SIG.with(|s| s.borrow_mut().idle_waiters.push(me()));
        block_me();
    }
}
/// Harness side: the thread that runs the signal loop has returned.
pub fn mark_exited() {
    let wake: Vec<TaskId> = SIG.with(|s| {
        let mut s = s.borrow_mut();
        s.exited = true;
        s.idle_waiters.drain(..).collect()
    });
    for w in wake {
        unblock(w);
    }
}
pub fn is_idle() -> bool {
    SIG.with(|s| {
        let s = s.borrow();
        s.idle && s.pending.is_empty()
    })
}
/// Event stamp taken when the loop last went idle (every effect of the signals delivered
/// before is complete from then on).
pub fn idle_stamp() -> u64 {
    SIG.with(|s| s.borrow().idle_stamp)
}
pub fn delivered() -> u64 {
    SIG.with(|s| s.borrow().delivered)
}
pub fn coalesced() -> u64 {
    SIG.with(|s| s.borrow().coalesced)
}
