//! Simulated runtime for deterministic simulation of quandary.
//!
//! Everything nondeterministic the hooked quandary crate touches goes through
//! this crate: threads and their scheduling (coroutines on shuttle-engine),
//! `Mutex`/`Condvar`/`RwLock`, monotonic and wall clocks with a timer heap,
//! `thread_rng`, `RandomState`, TCP/UDP sockets and the file system.
//!
//! All state is thread-local to the OS thread that runs the simulation (one
//! OS thread runs one execution at a time; 16 OS threads run 16 independent
//! executions). Nothing here reads a real clock or a real random source.

use shuttle_engine::runtime::execution::ExecutionState;
use shuttle_engine::runtime::task::TaskId;
use shuttle_engine::runtime::thread as rt;
use std::cell::{Cell, RefCell};
use std::collections::BTreeMap;

pub mod fs;
pub mod hash;
pub mod net;
pub mod rand;
pub mod sched;
pub mod signal;
pub mod stream;
pub mod sync;
pub mod thread;
pub mod time;
#[cfg(feature = "tokio")]
pub mod tokio_net;

// ---------------------------------------------------------------------------
// Fault kinds
// ---------------------------------------------------------------------------

macro_rules! fault_kinds {
    ($($name:ident => $s:expr),* $(,)?) => {
        /// Every fault kind the simulator can inject. A kind is *counted*
        /// only when it actually fires.
        #[derive(Clone, Copy, PartialEq, Eq, Debug, Hash, PartialOrd, Ord)]
        #[repr(u8)]
        pub enum Fault { $($name),* }
        pub const FAULT_NAMES: &[&str] = &[$($s),*];
        pub const ALL_FAULTS: &[Fault] = &[$(Fault::$name),*];
    };
}
fault_kinds! {
    TcpSegmentSplit => "tcp_segment_split",
    TcpShortRead => "tcp_short_read",
    TcpDelay => "tcp_delay",
    TcpShortWrite => "tcp_short_write",
    EintrRead => "eintr_read",
    EintrWrite => "eintr_write",
    EintrAccept => "eintr_accept",
    EintrPoll => "eintr_poll",
    EintrUdpRecv => "eintr_udp_recv",
    EintrUdpSend => "eintr_udp_send",
    TcpPeerReset => "tcp_peer_reset",
    TcpPeerHalfClose => "tcp_peer_half_close",
    ClientStall => "client_stall",
    UdpLoss => "udp_loss",
    UdpDup => "udp_dup",
    UdpReorder => "udp_reorder",
    UdpDelay => "udp_delay",
    UdpTruncate => "udp_truncate_to_buffer",
    UdpSendError => "udp_send_error",
    SpuriousPending => "spurious_pending",
    SpuriousWakeup => "spurious_wakeup",
    SpawnFail => "spawn_fail",
    TimeoutAsTimedOut => "timeout_kind_timedout",
    EagerTimeout => "eager_timeout",
    FsShortRead => "fs_short_read",
    FsEintr => "fs_eintr_read",
    FsEnoent => "fs_enoent",
    FsEisdir => "fs_eisdir",
    FsEioAt => "fs_eio_at",
    FsTorn => "fs_torn",
    FsBitflip => "fs_bitflip",
    ClockJump => "clock_jump",
    ClockSkew => "clock_skew",
    WireTruncate => "wire_truncate",
    WireSubstitute => "wire_substitute",
    WireCountBump => "wire_count_bump",
    WireAppend => "wire_append",
    WireDupTail => "wire_dup_tail",
    Shutdown => "shutdown_midrun",
    AcceptError => "accept_error",
    UdpRecvError => "udp_recv_error",
    TaskPanic => "task_panic",
}
pub const N_FAULTS: usize = FAULT_NAMES.len();

impl Fault {
    pub fn name(self) -> &'static str {
        FAULT_NAMES[self as usize]
    }
    pub fn from_name(s: &str) -> Option<Fault> {
        FAULT_NAMES.iter().position(|n| *n == s).map(|i| ALL_FAULTS[i])
    }
}

/// Per-execution fault configuration: rate in 1/1000 per opportunity,
/// 0 = kind disabled (no random draw is made for a disabled kind).
#[derive(Clone, Debug)]
pub struct FaultCfg {
    pub rate: [u16; N_FAULTS],
}
impl Default for FaultCfg {
    fn default() -> Self {
        FaultCfg { rate: [0; N_FAULTS] }
    }
}
impl FaultCfg {
    pub fn none() -> Self {
        Self::default()
    }
    pub fn with(mut self, f: Fault, permille: u16) -> Self {
        self.rate[f as usize] = permille;
        self
    }
    pub fn enabled(&self) -> Vec<(&'static str, u16)> {
        ALL_FAULTS
            .iter()
            .filter(|f| self.rate[**f as usize] > 0)
            .map(|f| (f.name(), self.rate[*f as usize]))
            .collect()
    }
}

// ---------------------------------------------------------------------------
// World
// ---------------------------------------------------------------------------

pub const WALL_BASE_S: u64 = 1_700_000_000;
/// Monotonic clock value at the start of every execution: 10^6 s after "boot",
/// so that `Instant::checked_sub` of realistic durations succeeds.
pub const MONO_BASE_NS: u64 = 1_000_000_000_000_000;

type TimerFn = Box<dyn FnOnce()>;

pub struct World {
    now: u64,
    wall_offset_s: i64,
    timer_seq: u64,
    timers: BTreeMap<(u64, u64), TimerFn>,
    clock_done: bool,
    ev_seq: u64,
    ev_hash: u64,
    trace: Option<Vec<String>>,
    hash_key: u64,
    faults: FaultCfg,
    live_threads: usize,
    exit_waiters: Vec<TaskId>,
    timers_fired: u64,
    #[cfg(feature = "tokio")]
    tokio_epoch: Option<tokio::time::Instant>,
}

impl World {
    fn new() -> Self {
        World {
            now: MONO_BASE_NS,
            wall_offset_s: 0,
            timer_seq: 0,
            timers: BTreeMap::new(),
            clock_done: false,
            ev_seq: 0,
            ev_hash: 0xcbf29ce484222325,
            trace: None,
            hash_key: 0,
            faults: FaultCfg::default(),
            live_threads: 0,
            exit_waiters: Vec::new(),
            timers_fired: 0,
            #[cfg(feature = "tokio")]
            tokio_epoch: None,
        }
    }
}

thread_local! {
    /// Set by the scheduler once the step bound is exhausted; the next simrt
    /// call of any task then unwinds that task (see `check_abort`).
    pub(crate) static ABORT: Cell<bool> = const { Cell::new(false) };
    static WORLD: RefCell<World> = RefCell::new(World::new());
    /// Task id of the clock task of the current execution (read by the scheduler).
    pub(crate) static CLOCK_TASK: Cell<Option<usize>> = const { Cell::new(None) };
    static STATS: RefCell<Stats> = RefCell::new(Stats::default());
    static CLOCK_HANDLE: RefCell<Option<shuttle::thread::JoinHandle<()>>> = const { RefCell::new(None) };
}

/// Statistics that accumulate across executions on one OS thread; the
/// harness drains and merges them.
#[derive(Clone, Debug, Default)]
pub struct Stats {
    pub faults_fired: Vec<u64>,
    pub probes: BTreeMap<&'static str, u64>,
    pub sim_ns: u128,
    pub timers_fired: u64,
    pub executions: u64,
}
impl Stats {
    pub fn merge(&mut self, o: &Stats) {
        if self.faults_fired.len() < N_FAULTS {
            self.faults_fired.resize(N_FAULTS, 0);
        }
        for (i, v) in o.faults_fired.iter().enumerate() {
            self.faults_fired[i] += v;
        }
        for (k, v) in &o.probes {
            *self.probes.entry(k).or_insert(0) += v;
        }
        self.sim_ns += o.sim_ns;
        self.timers_fired += o.timers_fired;
        self.executions += o.executions;
    }
}
pub fn take_stats() -> Stats {
    STATS.with(|s| std::mem::take(&mut *s.borrow_mut()))
}

/// Records that a rare branch was reached.
pub fn probe(name: &'static str) {
    STATS.with(|s| *s.borrow_mut().probes.entry(name).or_insert(0) += 1);
}
pub fn probe_n(name: &'static str, n: u64) {
    STATS.with(|s| *s.borrow_mut().probes.entry(name).or_insert(0) += n);
}

/// Counts a fault that was applied explicitly by a scenario (not by a coin).
pub fn count_fault(f: Fault) {
    STATS.with(|s| {
        let mut s = s.borrow_mut();
        if s.faults_fired.len() < N_FAULTS {
            s.faults_fired.resize(N_FAULTS, 0);
        }
        s.faults_fired[f as usize] += 1;
    });
}

/// Cooperative fault point: true if fault kind `f` fires here. Draws from
/// the recorded random stream only when the kind is enabled in this run.
pub fn fault(f: Fault) -> bool {
    let rate = WORLD.with(|w| w.borrow().faults.rate[f as usize]);
    if rate == 0 {
        return false;
    }
    let fire = rng_below(1000) < rate as u64;
    if fire {
        count_fault(f);
        event("fault", f as u64, 0);
    }
    fire
}
pub fn fault_enabled(f: Fault) -> bool {
    WORLD.with(|w| w.borrow().faults.rate[f as usize]) > 0
}

// --- task helpers -----------------------------------------------------------

pub(crate) fn me() -> TaskId {
    ExecutionState::me()
}
pub fn me_usize() -> usize {
    usize::from(me())
}
/// Id of the running task, or `None` outside an execution (never panics).
pub fn try_me_usize() -> Option<usize> {
    ExecutionState::try_with(|s| s.try_current().map(|t| usize::from(t.id()))).ok().flatten()
}
/// Message of the panic that ends an execution whose step bound is exhausted.
pub const STEP_BOUND_MSG: &str = "SIMRT-STEP-BOUND exhausted";

/// Ends the execution by unwinding the calling task when the scheduler has
/// flagged the step bound. (Returning `None` from the scheduler instead would
/// make shuttle force-unwind every suspended coroutine, running destructors of
/// the code under test that take locks outside a live execution.)
#[inline]
pub fn check_abort() {
    if ABORT.with(|a| a.get()) && !thread::panicking() {
        panic!("{}", STEP_BOUND_MSG);
    }
}
pub(crate) fn block_me() {
    check_abort();
    ExecutionState::with(|s| s.current_mut().block(false));
    rt::switch();
    check_abort();
}
pub(crate) fn unblock(t: TaskId) {
    // `try_with`: destructors of simulator objects may run outside any execution
    // (thread-local teardown after an aborted execution); then there is nobody to wake.
    let _ = ExecutionState::try_with(|s| {
        if let Some(task) = s.try_get(t) {
            if !task.finished() {
                s.get_mut(t).unblock()
            }
        }
    });
}
/// The harness's panic hook reports every panic that runs the hook (i.e. every panic that is not
/// an injected, contained crash) here.
pub fn note_genuine_panic() {
    shuttle_engine::contained_unwind::note_genuine();
}
/// A bare scheduling point.
pub fn switch() {
    check_abort();
    rt::switch();
}

// --- randomness --------------------------------------------------------------

/// Next value of the recorded random stream of this execution.
pub fn rng_u64() -> u64 {
    ExecutionState::next_u64()
}
pub fn rng_below(n: u64) -> u64 {
    if n <= 1 {
        0
    } else {
        rng_u64() % n
    }
}

// --- events -------------------------------------------------------------------

fn mix(h: u64, v: u64) -> u64 {
    let mut x = h ^ v.wrapping_mul(0x9E3779B97F4A7C15);
    x = (x ^ (x >> 30)).wrapping_mul(0xBF58476D1CE4E5B9);
    x = (x ^ (x >> 27)).wrapping_mul(0x94D049BB133111EB);
    x ^ (x >> 31)
}
fn str_hash(s: &str) -> u64 {
    let mut h = 0xcbf29ce484222325u64;
    for b in s.bytes() {
        h = (h ^ b as u64).wrapping_mul(0x100000001b3);
    }
    h
}

/// Appends an event to the execution's event log (hash always, text only when
/// tracing) and returns its global sequence number. Never draws randomness,
/// never reads a real clock.
pub fn event(kind: &'static str, a: u64, b: u64) -> u64 {
    let task = ExecutionState::try_with(|s| s.try_current().map(|t| usize::from(t.id())))
        .ok()
        .flatten()
        .unwrap_or(usize::MAX);
    WORLD.with(|w| {
        let mut w = w.borrow_mut();
        w.ev_seq += 1;
        let mut h = mix(w.ev_hash, str_hash(kind));
        h = mix(h, a);
        h = mix(h, b);
        h = mix(h, task as u64);
        h = mix(h, w.now);
        w.ev_hash = h;
        let (seq, now) = (w.ev_seq, w.now);
        if let Some(t) = w.trace.as_mut() {
            if t.len() < 20_000 {
                t.push(format!(
                    "#{seq} t={:.9} task={} {kind} {a} {b}",
                    (now - MONO_BASE_NS) as f64 / 1e9,
                    task as i64
                ));
            }
        }
        seq
    })
}
/// Global event sequence number without logging (for invoke/return stamps).
pub fn stamp() -> u64 {
    WORLD.with(|w| {
        let mut w = w.borrow_mut();
        w.ev_seq += 1;
        w.ev_seq
    })
}
pub fn event_hash() -> u64 {
    WORLD.with(|w| w.borrow().ev_hash)
}
pub fn take_trace() -> Vec<String> {
    WORLD.with(|w| w.borrow_mut().trace.take().unwrap_or_default())
}

// --- execution life cycle ------------------------------------------------------

/// Parameters of one execution's world.
#[derive(Clone, Debug, Default)]
pub struct WorldCfg {
    pub hash_key: u64,
    pub faults: FaultCfg,
    pub trace: bool,
}

/// Resets every piece of simulator state and spawns the clock task. Must be
/// the first thing the main task of an execution does.
pub fn start(cfg: WorldCfg) {
    WORLD.with(|w| {
        let mut nw = World::new();
        nw.hash_key = cfg.hash_key;
        nw.faults = cfg.faults.clone();
        nw.trace = if cfg.trace { Some(Vec::new()) } else { None };
        // Old timers may own Rc's of the previous (possibly aborted) execution.
        let old = std::mem::replace(&mut *w.borrow_mut(), nw);
        std::mem::forget(old.timers);
    });
    fs::reset();
    net::reset();
    #[cfg(feature = "tokio")]
    tokio_net::reset();
    thread::reset();
    signal::reset();
    CLOCK_TASK.with(|c| c.set(None));
    if let Some(old) = CLOCK_HANDLE.with(|c| c.borrow_mut().take()) {
        std::mem::forget(old);
    }
    let h = shuttle::thread::Builder::new()
        .name("sim-clock".into())
        .spawn(clock_main)
        .unwrap();
    let id = usize::from(h.thread().id());
    // Detached: an execution whose only unfinished task is the idle clock ends
    // normally; any *other* task left blocked is reported as a deadlock.
    ExecutionState::with(|s| s.get_mut(TaskId::from(id)).detach());
    CLOCK_TASK.with(|c| c.set(Some(id)));
    CLOCK_HANDLE.with(|c| *c.borrow_mut() = Some(h));
    STATS.with(|s| s.borrow_mut().executions += 1);
}

/// Ends the execution's world: stops the clock task and accounts simulated time.
pub fn finish() {
    let (ns, fired) = WORLD.with(|w| {
        let mut w = w.borrow_mut();
        w.clock_done = true;
        (w.now - MONO_BASE_NS, w.timers_fired)
    });
    STATS.with(|s| {
        let mut s = s.borrow_mut();
        s.sim_ns += ns as u128;
        s.timers_fired += fired;
    });
    if let Some(c) = CLOCK_TASK.with(|c| c.get()) {
        unblock(TaskId::from(c));
    }
    // Let the clock task run to its end so that its stack can be reused.
    if let Some(h) = CLOCK_HANDLE.with(|c| c.borrow_mut().take()) {
        let _ = h.join();
    }
    // A completed execution frees its simulated kernel state (pending timers, sockets, datagram
    // logs, files) here, while the engine is still live; `start` only has to forget the state of
    // executions that were aborted.
    let timers = WORLD.with(|w| std::mem::take(&mut w.borrow_mut().timers));
    drop(timers);
    net::clear_after_finish();
    #[cfg(feature = "tokio")]
    tokio_net::clear_after_finish();
    fs::reset();
}

// --- clock -----------------------------------------------------------------------

pub fn now_ns() -> u64 {
    #[cfg(feature = "tokio")]
    {
        let ep = WORLD.with(|w| w.borrow().tokio_epoch);
        if let Some(ep) = ep {
            return MONO_BASE_NS + (tokio::time::Instant::now() - ep).as_nanos() as u64;
        }
    }
    WORLD.with(|w| w.borrow().now)
}
/// Simulated seconds since the start of the execution.
pub fn sim_elapsed_ns() -> u64 {
    now_ns() - MONO_BASE_NS
}
/// From now on the monotonic clock follows the paused Tokio clock of the
/// current-thread runtime the caller is inside (engine E2).
#[cfg(feature = "tokio")]
pub fn follow_tokio_clock() {
    let ep = tokio::time::Instant::now();
    WORLD.with(|w| w.borrow_mut().tokio_epoch = Some(ep));
}
#[cfg(feature = "tokio")]
pub fn account_tokio_time() {
    let ns = sim_elapsed_ns();
    WORLD.with(|w| {
        let mut w = w.borrow_mut();
        w.tokio_epoch = None;
        w.now = MONO_BASE_NS + ns;
    });
}
pub fn wall_offset_s() -> i64 {
    WORLD.with(|w| w.borrow().wall_offset_s)
}
/// Fault `clock_jump`: the wall clock is stepped (monotonic time is not).
pub fn set_wall_offset(s: i64) {
    WORLD.with(|w| w.borrow_mut().wall_offset_s = s);
}
pub fn hash_key() -> u64 {
    WORLD.with(|w| w.borrow().hash_key)
}
pub fn set_hash_key(k: u64) {
    WORLD.with(|w| w.borrow_mut().hash_key = k);
}

/// Moves simulated time forward by `d` from the calling task's point of
/// view: every timer due in between fires, in deadline order.
pub fn advance(d: std::time::Duration) {
    thread::sleep(d);
}

pub(crate) fn add_timer(deadline: u64, f: TimerFn) -> (u64, u64) {
    let key = WORLD.with(|w| {
        let mut w = w.borrow_mut();
        w.timer_seq += 1;
        let k = (deadline, w.timer_seq);
        w.timers.insert(k, f);
        k
    });
    if let Some(c) = CLOCK_TASK.with(|c| c.get()) {
        unblock(TaskId::from(c));
    }
    key
}
pub(crate) fn cancel_timer(k: (u64, u64)) {
    WORLD.with(|w| {
        w.borrow_mut().timers.remove(&k);
    });
}
pub fn pending_timers() -> usize {
    WORLD.with(|w| w.borrow().timers.len())
}

fn clock_main() {
    loop {
        // Take every timer that shares the earliest deadline as one batch.
        let batch: Vec<TimerFn> = WORLD.with(|w| {
            let mut w = w.borrow_mut();
            let mut v = Vec::new();
            if let Some((&(d, _), _)) = w.timers.iter().next() {
                if w.now < d {
                    w.now = d;
                }
                while let Some((&(d2, _), _)) = w.timers.iter().next() {
                    if d2 > w.now {
                        break;
                    }
                    let (_, f) = w.timers.pop_first().unwrap();
                    w.timers_fired += 1;
                    v.push(f);
                }
            }
            v
        });
        if batch.is_empty() {
            if WORLD.with(|w| w.borrow().clock_done) {
                return;
            }
            block_me();
        } else {
            event("clock_fire", batch.len() as u64, 0);
            for f in batch {
                f();
            }
            rt::switch();
        }
    }
}
